#!/usr/bin/env python3
"""Rewrite the tables of DESIGN.md section 12 from mutants/REPORT.json and seeded/*/result.json."""
import json
import os

VERIF = os.path.dirname(os.path.dirname(os.path.abspath(__file__)))
MARK = "<!-- BEGIN GENERATED TABLES -->"


def main():
    out = [MARK, ""]
    rp = os.path.join(VERIF, "mutants", "REPORT.json")
    if os.path.exists(rp):
        rows = json.load(open(rp))
        out += ["### Hand-written mutants (`mutants/defs.py`, `./check selftest mutants`)", "",
                "| mutant | what it does | survives the 69 tests | detected by (quick tier, seconds) | missed by |",
                "|---|---|---|---|---|"]
        for r in rows:
            if "error" in r:
                out.append(f"| {r['mutant']} | (pattern not applicable: {r['error']}) | | | |")
                continue
            det = ", ".join(f"{p} ({c.get('seconds')}s)" for p, c in r["checks"].items() if c.get("exit") == 1)
            mis = ", ".join(p for p, c in r["checks"].items() if c.get("exit") not in (1, None) and "skipped" not in c)
            out.append(f"| {r['mutant']} | {r['note']} | {'yes' if r['survives_tests'] else 'no'} | {det} | {mis} |")
        out.append("")
    sroot = os.path.join(VERIF, "seeded")
    srows = []
    if os.path.isdir(sroot):
        for name in sorted(os.listdir(sroot)):
            mp, rp2 = os.path.join(sroot, name, "meta.json"), os.path.join(sroot, name, "result.json")
            if os.path.exists(mp) and os.path.exists(rp2):
                srows.append((name, json.load(open(mp)), json.load(open(rp2))))
    brows = [(n, m, r) for n, m, r in srows if m.get("kind") == "benign"]
    srows = [(n, m, r) for n, m, r in srows if m.get("kind") != "benign"]
    if brows:
        out += ["### Benign changes written by independent sub-agents (legal alternative implementations; the check must stay quiet)", "",
                "| id | property | change | tests pass with it | check result |", "|---|---|---|---|---|"]
        for name, meta, res in brows:
            r = "; ".join(f"{p}: {'quiet' if c['exit'] == 0 else 'ALARM exit ' + str(c['exit'])} ({c['seconds']}s)" for p, c in res.get("checks", {}).items())
            out.append(f"| {name} | {meta['property']} | {meta['what']} | {'yes' if res.get('tests_pass_with_change') else 'no'} | {r} |")
        out.append("")
    bp = os.path.join(VERIF, "mutants", "BENIGN.json")
    if os.path.exists(bp):
        out += ["### Hand-written benign variants (`mutants/defs.py` list B, `./check selftest benign`)", "",
                "| variant | what it does | survives the tests | checks run against it (all must exit 0) |", "|---|---|---|---|"]
        for r in json.load(open(bp)):
            if "error" in r:
                out.append(f"| {r['mutant']} | ({r['error']}) | | |")
                continue
            cs = ", ".join(f"{p}: {'quiet' if c.get('exit') == 0 else 'ALARM exit ' + str(c.get('exit'))}" for p, c in r["checks"].items())
            out.append(f"| {r['mutant']} | {r['note']} | {'yes' if r['survives_tests'] else 'no'} | {cs} |")
        out.append("")
    if srows:
        out += ["### Changes written by independent sub-agents (`seeded/<id>/`, `tools/run_seeded.py`)", "",
                "| id | property | change | needs, to manifest | tests pass with it | demo with / without | first run of the machinery | detected by (now) | missed by |",
                "|---|---|---|---|---|---|---|---|---|"]
        for name, meta, res in srows:
            det = ", ".join(f"{p} ({c['seconds']}s)" for p, c in res.get("checks", {}).items() if c["exit"] == 1)
            mis = ", ".join(p for p, c in res.get("checks", {}).items() if c["exit"] != 1)
            if meta.get("not_covered") and mis:
                mis += " (not covered: outside a stated assumption)"
            out.append(f"| {name} | {meta['property']} | {meta['what']} | {meta['needs']} | "
                       f"{'yes' if res.get('tests_pass_with_change') else 'no'} | "
                       f"{res.get('demo_exit_with_change')} / {res.get('demo_exit_without_change')} | {meta.get('first_run', '')} | {det} | {mis} |")
        out.append("")
    p = os.path.join(VERIF, "DESIGN.md")
    s = open(p).read()
    if MARK in s:
        s = s[:s.index(MARK)]
    s = s.rstrip("\n") + "\n\n" + "\n".join(out) + "\n"
    open(p, "w").write(s)
    print("DESIGN.md section 12 tables rewritten:", len(out), "lines")


main()
