#!/usr/bin/env python3
"""Regenerate MANIFEST.json from the property modules that exist (sim/props/cNN.py)."""
import json, os, sys
VERIF = os.path.dirname(os.path.dirname(os.path.abspath(__file__)))
sys.path.insert(0, VERIF)

NA = {
 "C01": "pure function of one file's characters (doccomment cleaning); no schedule, fault, clock, history or multi-party behaviour for a simulator to own (DESIGN.md section 6)",
 "C02": "pure function of one file's token sequence; the aggregator's state lives and dies inside one deterministic tree walk of that input (DESIGN.md section 6)",
 "C03": "pure function of file text and three configuration strings; nesting depth is input structure, not interleaving (DESIGN.md section 6)",
 "C04": "metamorphic relation between two input texts; deciding it is input generation, not simulation (DESIGN.md section 6)",
 "C05": "language-acceptance claim over all strings of a grammar; needs a grammar-driven generator and reference tokenizer, has no I/O, time or fault dimension (DESIGN.md section 6)",
 "C07": "well-formedness of text rendered from one file; a pure function decided by parsing output with docutils (DESIGN.md section 6)",
 "C08": "relation between renderings of one file under 2^10 settings vectors; pure and enumerable without any environment (DESIGN.md section 6)",
 "C09": "class nesting and member pairing are a pure function of one file's command sequence (DESIGN.md section 6)",
 "C10": "type/default/help extraction is a pure function of one command's arguments (DESIGN.md section 6)",
 "C11": "name/EXPECTFAIL/argument extraction is a pure function of one command's arguments (DESIGN.md section 6)",
}
CLAIMABLE = ["C06", "C12", "C13", "C14", "C15", "C16", "C17", "C18", "C19", "C20"]

def main():
    checks, na = [], []
    for pid in CLAIMABLE:
        path = os.path.join(VERIF, "sim", "props", pid.lower() + ".py")
        if not os.path.exists(path):
            na.append({"property_id": pid, "reason": "check not built yet in this tree (planned: DESIGN.md section 3); not claimed until it runs"})
            continue
        import importlib
        mod = importlib.import_module("sim.props." + pid.lower())
        m = mod.MANIFEST
        checks.append({
            "property_id": pid,
            "quick_cmd": f"./check {pid} quick",
            "thorough_cmd": f"./check {pid} thorough",
            "evidence_file": f"evidence/{pid}.json",
            "replay_cmd_template": "./check replay {path}",
            "engine": m["engine"],
            "level_claimed": {"category": mod.LEVEL, "text": m["level_text"], "design_ref": m["design_ref"]},
            "level_note": m["level_note"],
            "technique": m["technique"],
        })
    for pid in sorted(NA):
        na.append({"property_id": pid, "reason": NA[pid]})
    man = {
        "version": 1,
        "setup_cmd": "sh ./setup.sh",
        "hooks": {
            "guard": "CMINX_VERIF",
            "enable": "no hook exists in /repo: every seam is reached from outside (interposers on os/builtins, os.environ, cwd, argv, the CMINX_EXECUTABLE CMake variable); checks import cminx from /repo/src of the current working tree (VERIF_REPO overrides the path for mutant self-tests)",
            "baseline_off_cmd": "cd /repo && /venv/bin/python -m pytest -ra -q -p no:cacheprovider --timeout=900 --continue-on-collection-errors",
            "source_commits": [],
            "add_only": True,
        },
        "engines": [
            {"name": "E1 simworld", "path": "sim/core.py", "serves_properties": ["C06", "C12", "C13", "C14", "C15", "C16", "C17", "C18"],
             "kind_free_text": "deterministic simulation: real cminx.main in-process on a tmpfs sandbox with seeded interposers on directory listing order, open/write/close/mkdir (fault injection), env, cwd, call history; Hypothesis-seeded sharded search with shrinking and JSON replay files"},
            {"name": "E2 cmakesim", "path": "sim/cmakesim.py", "serves_properties": ["C19"],
             "kind_free_text": "two-party simulation: real cmake -P driving cmake/cminx.cmake with CMINX_EXECUTABLE bound to a recording stub with scripted failures, or to the working-tree CLI"},
            {"name": "E3 rsthist", "path": "sim/props/c20.py", "serves_properties": ["C20"],
             "kind_free_text": "seeded operation histories on the public RSTWriter API stepped against a reference document model and a twin document"},
        ],
        "checks": checks,
        "not_applicable": na,
        "notes": "All checks: exit 0 held / 1 VIOLATION line with replay file / 2 HARNESS-ERROR. VERIF_SEED selects the run; VERIF_REPO points the same checks at another tree (mutant self-tests). Known findings: known_findings.json.",
    }
    with open(os.path.join(VERIF, "MANIFEST.json"), "w") as f:
        json.dump(man, f, indent=1)
    print("checks:", [c["property_id"] for c in checks])

main()
