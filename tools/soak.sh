#!/bin/sh
# tools/soak.sh "<seeds>" "<props>" [tier]  - run checks under several VERIF_SEED values without touching evidence files
SEEDS="${1:-1 2 3 4 5}"; PROPS="${2:-C06 C12 C13 C14 C15 C16 C17 C18 C19 C20}"; TIER="${3:-quick}"
cd "$(dirname "$0")/.."
for s in $SEEDS; do for p in $PROPS; do
  out=$(VERIF_SEED=$s ./check $p $TIER write_evidence=0 2>&1); rc=$?
  echo "seed=$s $p rc=$rc $(echo "$out" | grep -c '^VIOLATION') violations; $(echo "$out" | grep "^\[$p\] worlds" | cut -c1-140)"
  if [ $rc -ne 0 ]; then echo "$out" | grep -A2 "^VIOLATION\|^HARNESS" | cut -c1-400 | head -12; fi
done; done
