#!/usr/bin/env python3
"""Run the registered quick checks against the seeded breaking changes under seeded/<id>/.

For each seeded/<id>/{patch.diff, meta.json}: copy /repo to a scratch directory, apply the patch, run the
repository's test suite there (the change must survive it), run the demonstration (must fail with the change
and pass without), run the quick check of every property named in meta["checks"] with VERIF_REPO=<scratch>,
and record what happened in seeded/<id>/result.json.  `--in-place` applies the patch to /repo itself instead
(git -C /repo apply / git -C /repo checkout -- .), the way the brief describes.
"""
import json
import os
import shutil
import subprocess
import sys
import time

VERIF = os.path.dirname(os.path.dirname(os.path.abspath(__file__)))
PY = "/venv/bin/python"


def sh(cmd, **kw):
    return subprocess.run(cmd, capture_output=True, text=True, **kw)


def run_demo(sdir, repo, meta):
    demo = os.path.join(sdir, meta.get("demo", "demo.py"))
    if not os.path.exists(demo):
        return None
    args = [PY, demo] + ([repo] if meta.get("demo_takes_repo") else [])
    env = dict(os.environ, PYTHONPATH=os.path.join(repo, "src"), PYTHONWARNINGS="ignore")
    p = sh(args, env=env, cwd=sdir, timeout=600)
    return p.returncode


def main():
    in_place = "--in-place" in sys.argv
    names = [a for a in sys.argv[1:] if not a.startswith("--")]
    root = os.path.join(VERIF, "seeded")
    rows = []
    for name in sorted(os.listdir(root)):
        sdir = os.path.join(root, name)
        if not os.path.isdir(sdir) or (names and not any(n in name for n in names)):
            continue
        with open(os.path.join(sdir, "meta.json")) as f:
            meta = json.load(f)
        patch = os.path.join(sdir, "patch.diff")
        if in_place:
            repo = "/repo"
            a = sh(["git", "-C", "/repo", "apply", patch])
        else:
            repo = "/dev/shm/cminx-seeded-" + name
            shutil.rmtree(repo, ignore_errors=True)
            sh(["rsync", "-a", "--exclude", ".git", "--exclude", "__pycache__", "/repo/", repo + "/"])
            a = sh(["patch", "-p1", "-d", repo, "-i", patch])
        res = {"seeded": name, "property": meta["property"], "applied": a.returncode == 0}
        try:
            if a.returncode != 0:
                res["error"] = (a.stdout + a.stderr)[-400:]
            else:
                t = sh([PY, "-m", "pytest", "-q", "-p", "no:cacheprovider", "--timeout=900", "-x"], cwd=repo,
                       env=dict(os.environ, PYTHONPATH=os.path.join(repo, "src")))
                res["tests_pass_with_change"] = t.returncode == 0
                res["demo_exit_with_change"] = run_demo(sdir, repo, meta)
                res["demo_exit_without_change"] = run_demo(sdir, "/repo", meta) if not in_place else None
                res["checks"] = {}
                for prop in meta.get("checks", [meta["property"]]):
                    t0 = time.time()
                    env = dict(os.environ)
                    if not in_place:
                        env["VERIF_REPO"] = repo
                    else:
                        env["VERIF_NO_EVIDENCE"] = "1"
                    p = sh([os.path.join(VERIF, "check"), prop, "quick"] + (["write_evidence=0"] if in_place else []),
                           cwd=VERIF, env=env)
                    lines = p.stdout.splitlines()
                    first = ""
                    for i, ln in enumerate(lines):
                        if ln.startswith("VIOLATION") and i + 1 < len(lines):
                            first = lines[i + 1].strip()[:400]
                            break
                    res["checks"][prop] = {"exit": p.returncode, "violations": sum(ln.startswith("VIOLATION") for ln in lines),
                                           "seconds": round(time.time() - t0, 1), "first": first}
                res["detected_by"] = [p for p, r in res["checks"].items() if r["exit"] == 1]
        finally:
            if in_place:
                sh(["git", "-C", "/repo", "checkout", "--", "."])
            else:
                shutil.rmtree(repo, ignore_errors=True)
        with open(os.path.join(sdir, "result.json"), "w") as f:
            json.dump(res, f, indent=1)
        rows.append(res)
        benign = meta.get("kind") == "benign"
        res["kind"] = "benign" if benign else "breaking"
        with open(os.path.join(sdir, "result.json"), "w") as f:
            json.dump(res, f, indent=1)
        if benign:
            print(f"{name:34s} tests={'pass' if res.get('tests_pass_with_change') else 'FAIL'} (benign) "
                  + " ".join(f"{p}:{'quiet' if r['exit'] == 0 else 'ALARM rc=' + str(r['exit'])}({r['seconds']}s) {r['first'][:160] if r['exit'] else ''}"
                             for p, r in res.get("checks", {}).items()), flush=True)
            continue
        print(f"{name:34s} tests={'pass' if res.get('tests_pass_with_change') else 'FAIL'} demo(with/without)="
              f"{res.get('demo_exit_with_change')}/{res.get('demo_exit_without_change')} "
              + " ".join(f"{p}:{'DETECTED' if r['exit'] == 1 else 'MISSED rc=' + str(r['exit'])}({r['seconds']}s)"
                         for p, r in res.get("checks", {}).items()), flush=True)
    return 0


if __name__ == "__main__":
    sys.exit(main())
