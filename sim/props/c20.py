"""C20 - RSTWriter serialisation is pure and keeps nested content indented.

E3 "rsthist": seeded operation histories on the public writer API, stepped
against a small reference document model, with a twin document rebuilt from the
mutating history alone at every serialisation point.  There is no I/O, clock or
fault in this property; what applies from the technique is the history half:
generate histories, check invariants after every step, shrink, replay.

Replay spec: {"headers": [...], "title", "ops": [[op, handle index, b, c], ...]} with op in
 text|field|bul|enum|dir|opt|section|title|clear|ser; handles are created by dir/section ops in order.
"""
import re

from hypothesis import strategies as st

from .. import core

ID = "C20"
LEVEL = "exploration"
TIERS = {
    "quick": {"shards": 128, "examples": 200, "det_shards": 2},
    "thorough": {"shards": 2048, "examples": 800, "det_shards": 8},
}
RULE = ("case = history of <= 30 operations on the public RSTWriter API (text with 1-4 lines and own leading spaces, field, "
        "bulleted/enumerated list, directive nested to depth <= 4, option, top-level section, set_title, clear, serialise via "
        "to_text()/str()); non-trivial iff a directive is nested at depth >= 2 and at least one serialisation happens before the "
        "last mutation; distinct by sha256(op list, header characters)")
COMPONENTS = {
    "real": ["cminx.rstwriter (RSTWriter, Directive, Paragraph, Field, RSTList, Option, Heading, DirectiveHeading) and "
             "cminx.config.Settings from the working tree"],
    "simulator_owned": ["the operation history (seeded, shrinkable)", "the header character list"],
    "stub": [],
    "threads_tasks_network_clock": "none; RSTWriter is an in-memory object",
}
ASSUMPTIONS = [
    "title changes are applied to the root writer and to sections, not to directives; sections are created at top level only",
    "what clear() does to a directive's options is not stated by the property and is not judged",
    "blank-line conventions between elements are not judged, except that option lines directly follow the directive heading",
]
PROBES = ["depth_ge_11", "list_ge_10_items", "depth_ge_2", "depth_ge_3", "multi_line_paragraph", "paragraph_with_leading_spaces", "option_after_content",
          "title_changed_after_serialise", "clear_root", "clear_directive", "serialise_ge_3", "section_used",
          "mutation_after_serialise"]

HEADER_SETS = [["#", "*", "=", "-"], ["=", "-", "~", "^"], ["^", "+"], ["*", "="], ["~", "#", "+"], ["-", "="]]
OPS = ["text", "text", "field", "bul", "enum", "dir", "dir", "dir", "opt", "section", "title", "clear", "ser", "ser"]
DEEP_OPS = ["deepen", "deepen", "deepen", "deepen", "text", "field", "enum", "opt", "ser"]


def swarm(rng, tier):
    return {"max_ops": rng.choice([12, 20, 30]), "headers": rng.randrange(len(HEADER_SETS)), "deep": rng.random() < 0.2}


def strategy(cfg):
    op = st.tuples(st.sampled_from(DEEP_OPS if cfg.get("deep") else OPS), st.integers(0, 11), st.integers(0, 7),
                   st.integers(0, 3))
    return st.fixed_dictionaries({"headers": st.sampled_from(HEADER_SETS),
                                  "title": st.sampled_from(["T", "Top title", "A longer document title 123",
                                                            "\u6a21\u5757 docs", "a\u0301\u0301 combining", "\uff21\uff22 wide"]),
                                  "ops": st.lists(op, min_size=1, max_size=cfg["max_ops"])})


# ---------------------------------------------------------------------------
# reference model

class Node:
    def __init__(self, kind, depth, **kw):
        self.kind = kind        # root | section | dir | text | field | bul | enum
        self.depth = depth      # number of enclosing directives for content placed INSIDE this node
        self.children = []
        self.options = []
        self.options_judged = True
        self.__dict__.update(kw)


def expected_lines(node, out, d):
    """Append (marker, expected line, how) for every element below node; d = enclosing directive count.
    how = "exact": the whole line is fixed by the statement (3*d spaces + the element's own text);
    how = ("lead", text): the line must start with exactly 3*d spaces followed by a non-space leader and contain
    the element's own text (the spelling of enumerators, of the argument separator and of trailing blanks is not
    fixed by the statement)."""
    ind = "   " * d
    for ch in node.children:
        if ch.kind == "text":
            for j, ln in enumerate(ch.lines):
                out.append((ch.markers[j], ind + ln, "exact"))
        elif ch.kind == "field":
            out.append((ch.marker, f"{ind}:{ch.name}: {ch.text}", ("lead", [f":{ch.name}:", ch.text])))
        elif ch.kind == "bul":
            for j, it in enumerate(ch.items):
                out.append((ch.markers[j], f"{ind}* {it}", ("lead", [it])))
        elif ch.kind == "enum":
            for j, it in enumerate(ch.items):
                out.append((ch.markers[j], f"{ind}{j + 1}. {it}", ("lead", [str(j + 1), it])))
        elif ch.kind == "dir":
            out.append((ch.marker, f"{ind}.. {ch.name}:: {','.join(ch.args)}", ("lead", [f".. {ch.name}::"] + list(ch.args))))
            if ch.options_judged:
                for (m, name, val) in ch.options:
                    out.append((m, f"{ind}   :{name}: {val}", ("lead", [f":{name}:", val])))
            expected_lines(ch, out, d + 1)
        elif ch.kind == "section":
            out.append((ch.marker, ch.title, "exact"))
            expected_lines(ch, out, d)


def line_ok(got, want, how):
    if how == "exact":
        return got == want
    n = len(want) - len(want.lstrip(" "))
    if got[:n] != " " * n or len(got) <= n or got[n] == " ":
        return False
    pos = n
    for part in how[1]:
        k = got.find(part, pos)
        if k < 0:
            return False
        pos = k + len(part)
    return True


def unjudged_markers(node, acc):
    for ch in node.children:
        if ch.kind == "dir":
            if not ch.options_judged:
                acc.update(m for m, _n, _v in ch.options)
            unjudged_markers(ch, acc)
        elif ch.kind == "section":
            unjudged_markers(ch, acc)


_MK = re.compile(r"mk\d+x")


def run_history(spec, serialise=True, upto=None):
    """Interpret the op list against the real API and the model.
    -> (root writer, model root, list of (op index, text1, text2, how) for every serialise op, stats)"""
    core.import_cminx()
    from cminx.config import RSTSettings, Settings
    from cminx.rstwriter import RSTWriter
    settings = Settings(rst=RSTSettings(headers=list(spec["headers"])))
    w = RSTWriter(spec["title"], settings=settings)
    root = Node("root", 0, title=spec["title"], level=0)
    handles = [(w, root)]
    sers = []
    stats = {"max_depth": 0, "n_ser": 0, "mut_after_ser": False, "title_after_ser": False}
    n = [0]

    def mk():
        n[0] += 1
        return f"mk{n[0]}x"

    ops = spec["ops"] if upto is None else spec["ops"][:upto]
    for oi, (op, a, b, c) in enumerate(ops):
        hw, hm = handles[a % len(handles)]
        if op == "deepen":
            # a chain: always nest inside the most recently created directive ("nested to any depth")
            op = "dir"
            hw, hm = handles[-1]
            if hm.depth >= 16:
                continue
        elif op in ("text", "field", "enum", "opt") and len(handles) > 6 and a % 2:
            hw, hm = handles[-1]
        if op == "ser":
            if not serialise:
                continue
            t1 = w.to_text() if b % 2 == 0 else str(w)
            t2 = str(w) if b % 2 == 0 else w.to_text()
            sers.append((oi, t1, t2))
            stats["n_ser"] += 1
            continue
        if stats["n_ser"]:
            stats["mut_after_ser"] = True
        if op == "text":
            nl = 1 + b % 4
            marks = [mk() for _ in range(nl)]
            lines = [(" " * ((c + j) % 3 if c else 0)) + f"{marks[j]} para line {j}" for j in range(nl)]
            hw.text("\n".join(lines))
            hm.children.append(Node("text", hm.depth, lines=lines, markers=marks))
        elif op == "field":
            m = mk()
            hw.field(f"f{b}", f"{m} value")
            hm.children.append(Node("field", hm.depth, name=f"f{b}", text=f"{m} value", marker=m))
        elif op in ("bul", "enum"):
            k = 1 + b % 3 if c != 3 else 9 + b % 4       # sometimes 9-12 items (two-digit enumerators)
            marks = [mk() for _ in range(k)]
            items = [f"{marks[j]} item" for j in range(k)]
            (hw.bulleted_list if op == "bul" else hw.enumerated_list)(*items)
            hm.children.append(Node(op, hm.depth, items=items, markers=marks))
        elif op == "dir":
            if hm.depth >= 4 and hm is not handles[-1][1]:
                continue
            if hm.depth >= 16:
                continue
            m = mk()
            args = [f"{m}arg{j}" for j in range(c % 3)]
            name = ["note", "function", "py:class", "toctree"][b % 4]
            # the marker must be on the heading line even without arguments: put it into the name's argument list
            if not args:
                args = [m]
            d = hw.directive(name, *args)
            node = Node("dir", hm.depth + 1, name=name, args=args, marker=m)
            hm.children.append(node)
            handles.append((d, node))
            stats["max_depth"] = max(stats["max_depth"], node.depth)
        elif op == "opt":
            if hm.kind != "dir":
                continue
            m = mk()
            hw.option(f"o{b}", f"{m}v")
            hm.options.append((m, f"o{b}", f"{m}v"))
            if hm.children:
                stats["opt_after_content"] = True
        elif op == "section":
            m = mk()
            title = f"{m} section {b}"
            s = w.section(title)
            node = Node("section", 0, title=title, marker=m, level=1)
            root.children.append(node)
            handles.append((s, node))
            stats["section"] = True
        elif op == "title":
            if hm.kind not in ("root", "section"):
                continue
            if hm.kind == "root":
                hm.title = f"New title {b} {'x' * c}"
                hw.title = hm.title
            else:
                hm.title = f"{hm.marker} renamed {b}{'y' * c}"
                hw.title = hm.title
            if stats["n_ser"]:
                stats["title_after_ser"] = True
        elif op == "clear":
            hw.clear()
            _drop_handles(handles, hm)
            hm.children = []
            if hm.kind == "dir":
                hm.options_judged = False
                stats["clear_dir"] = True
            else:
                stats["clear_root"] = True
    return w, root, sers, stats


def _drop_handles(handles, node):
    """Handles to elements below a cleared node must not be used any more (they are detached from the document)."""
    dead = set()

    def walk(n):
        for ch in n.children:
            dead.add(id(ch))
            walk(ch)
    walk(node)
    handles[:] = [(w, m) for (w, m) in handles if id(m) not in dead]


def check_text(text, root, headers, where):
    from .common import viol
    viols = []
    lines = text.split("\n")
    # --- title frame of the root
    i = 0
    while i < len(lines) and lines[i] == "":
        i += 1
    c = headers[0]
    t = root.title
    if lines[i:i + 3] != [c * len(t), t, c * len(t)]:
        viols.append(viol("title-frame", f"{where}: root heading is {lines[i:i + 3]!r}, expected frame of {c!r} x {len(t)} around {t!r}"))
    exp = []
    expected_lines(root, exp, 0)
    skip = set()
    unjudged_markers(root, skip)
    pos = {}
    for ln_no, ln in enumerate(lines):
        for m in _MK.findall(ln):
            pos.setdefault(m, ln_no)
    # --- every element line: exact indentation + own text
    for m, want, how in exp:
        if m not in pos:
            viols.append(viol("element-missing", f"{where}: {want!r} is not in the serialised document"))
            continue
        got = lines[pos[m]]
        if not line_ok(got, want, how):
            kind = "indentation" if got.strip() == want.strip() else "content"
            viols.append(viol("element-line", f"{where}: line {got!r}, expected {want!r}"
                              + ("" if how == "exact" else " (leader spelling free)"), kind=kind))
    # --- nothing that was cleared / never added
    known = {m for m, _w, _h in exp} | skip
    stray = [m for m in pos if m not in known]
    if stray:
        viols.append(viol("stale-element", f"{where}: markers {stray[:4]} should not be in the document (cleared or detached)"))
    # --- order (depth-first insertion order, options before content)
    want_seq = [m for m, _w, _h in exp if m in pos]
    got_seq = sorted((m for m in pos if m in known and m not in skip), key=lambda m: pos[m])
    # several markers may share one line (directive arguments): compare by line number, stably
    if [pos[m] for m in want_seq] != sorted(pos[m] for m in want_seq):
        viols.append(viol("order", f"{where}: elements are not in insertion order: {[m for m in got_seq][:12]} vs {want_seq[:12]}"))
    # --- options directly after the directive heading
    def opts(node):
        for ch in node.children:
            if ch.kind == "dir":
                if ch.options_judged and ch.marker in pos:
                    for k, (m, _n, _v) in enumerate(ch.options):
                        if m in pos and pos[m] != pos[ch.marker] + 1 + k:
                            viols.append(viol("option-placement", f"{where}: option {m} of directive {ch.marker} is on line "
                                              f"{pos[m]}, heading on {pos[ch.marker]}"))
                opts(ch)
            elif ch.kind == "section":
                opts(ch)
    opts(root)
    # --- section headings framed with the level-1 character
    for ch in root.children:
        if ch.kind == "section" and ch.marker in pos:
            k = pos[ch.marker]
            c1 = headers[1]
            if lines[k - 1:k + 2] != [c1 * len(ch.title), ch.title, c1 * len(ch.title)]:
                viols.append(viol("title-frame", f"{where}: section heading {lines[k - 1:k + 2]!r}"))
    return viols


def evaluate(spec, ctx):
    from .common import viol
    viols = []
    w, root, sers, stats = run_history(spec)
    ctx.runs += 1 + len(sers)
    if stats["max_depth"] >= 2:
        ctx.probes["depth_ge_2"] += 1
    if stats["max_depth"] >= 3:
        ctx.probes["depth_ge_3"] += 1
    if stats["max_depth"] >= 11:
        ctx.probes["depth_ge_11"] += 1
    for k, p in (("opt_after_content", "option_after_content"), ("title_after_ser", "title_changed_after_serialise"),
                 ("clear_root", "clear_root"), ("clear_dir", "clear_directive"), ("section", "section_used"),
                 ("mut_after_ser", "mutation_after_serialise")):
        if stats.get(k):
            ctx.probes[p] += 1
    if stats["n_ser"] >= 3:
        ctx.probes["serialise_ge_3"] += 1
    if any(op in ("bul", "enum") and c == 3 and 9 + b % 4 >= 10 for op, _a, b, c in spec["ops"]):
        ctx.probes["list_ge_10_items"] += 1
    if any(op == "text" and (1 + b % 4) > 1 for op, _a, b, _c in spec["ops"]):
        ctx.probes["multi_line_paragraph"] += 1
    if any(op == "text" and c for op, _a, _b, c in spec["ops"]):
        ctx.probes["paragraph_with_leading_spaces"] += 1
    ctx.note_case(core.spec_digest(spec), stats["max_depth"] >= 2 and stats["mut_after_ser"])
    for (oi, t1, t2) in sers:
        where = f"serialisation at op {oi}"
        if t1 != t2:
            viols.append(viol("not-repeatable", f"{where}: to_text() and str() / two consecutive serialisations differ "
                              f"({len(t1)} vs {len(t2)} chars)"))
            break
        # twin: the same mutating history on fresh objects, never serialised before
        tw, troot, _s, _st = run_history(spec, serialise=False, upto=oi)
        t3 = tw.to_text()
        if t3 != t1:
            viols.append(viol("serialisation-changed-the-document",
                              f"{where}: a twin built from the same mutations without earlier serialisations renders "
                              f"differently ({len(t3)} vs {len(t1)} chars)"))
            break
        viols += check_text(t1, troot, spec["headers"], where)
        if viols:
            break
    if not viols:
        final = w.to_text()
        viols += check_text(final, root, spec["headers"], "final serialisation")
    ctx.last_trace = core.spec_digest([len(s[1]) for s in sers])
    ctx.trace_digests.add(ctx.last_trace)
    return viols


MANIFEST = {
    "engine": "E3 rsthist",
    "design_ref": "DESIGN.md section 3 (C20)",
    "technique": "seeded operation histories on the public RSTWriter API checked step by step against a reference document model "
                 "and a twin document (history refinement; no faults exist for this property)",
    "level_text": "Seeded exploration of histories (<= 30 operations, directives nested to depth 4): at every serialisation point the "
                  "text is produced twice and once more from a twin built from the mutating history alone (purity); every element "
                  "line must equal 3*d spaces + its own text/leader, options must sit directly under their directive heading, "
                  "elements must appear in insertion order, titles must be framed by the level's character and re-framed after a "
                  "title change, and nothing cleared may reappear.",
    "level_note": "trusted: the 60-line reference model of element lines; blank-line conventions are not judged; clear() on a "
                  "directive leaves its options unjudged",
}
