"""C15 - exclusion patterns are honoured for every matching path, whatever the
listing order, the number of matching siblings, or the source of the pattern.
Replay spec: {"files", "proj", "out", "patterns" ({BASE} = sandbox root), "recursive", "auto_exclude",
 "variants": [{"cwd", "input", "output", "listing_key", "listing_explicit", "sources": [0 -e|1 -s file|2 user config per pattern],
               "rec_src": where the recursive flag comes from}]}
"""
import posixpath

from hypothesis import strategies as st

from .. import core, gen, refs
from .common import (E1_ASSUMPTIONS, E1_COMPONENTS, build_config, created_under, listing_of,
                     remove_outputs, viol)

ID = "C15"
LEVEL = "exploration"
TIERS = {
    "quick": {"shards": 128, "examples": 24, "det_shards": 2},
    "thorough": {"shards": 2048, "examples": 60, "det_shards": 8},
}
RULE = ("case = (world, variant) where a world is a generated tree + pattern set + placement and a variant is one "
        "listing schedule (seeded key and/or explicit per-directory permutation) with one assignment of each pattern "
        "to a source (-e, -s file, user config); non-trivial iff at least one pattern matches at least one entry of "
        "the tree; distinct by sha256(tree, patterns, sources, schedule, recursion, auto-exclusion)")
COMPONENTS = E1_COMPONENTS
ASSUMPTIONS = E1_ASSUMPTIONS + [
    "pattern forms: NAME, NAME/, single-component globs, **/NAME[/], absolute paths with optional final-component "
    "glob; relative patterns with an inner slash are not generated (their anchor is not fixed by the statement)"]
PROBES = ["logger_level_above_debug", "other_input_first", "ancestor_with_glob_characters", "stdout_mode", "unlistable_excluded_dir", "dir_and_file_share_a_name", "ancestor_named_like_pattern", "two_excluded_siblings_adjacent", "two_excluded_siblings_separated", "root_excluded",
          "dir_emptied_by_exclusion", "abs_pattern", "pattern_from_cli", "pattern_from_sfile",
          "pattern_from_user_config", "excluded_dir_with_content", "nonrecursive", "auto_exclude_off"]

SAFE_LOC = ["w1", "site", "work", "ci", "checkout", "work [v2]", "q?x*"]     # incl. names made of glob characters


def swarm(rng, tier):
    return {
        "collide_ancestor": rng.random() < 0.15,
        "allow_abs": rng.random() < 0.7,
        "max_patterns": rng.choice([2, 3, 5]),
        "tree": rng.choice(["wide", "deep", "small"]),
        "variants": 4 if tier == "quick" else 6,
        "allow_root": rng.random() < 0.5,
        "twin_names": rng.random() < 0.25,
    }


def strategy(cfg):
    tree_kw = {"wide": dict(max_depth=2, max_files=4, max_subdirs=3, max_cmds=2, budget=7),
               "deep": dict(max_depth=4, max_files=2, max_subdirs=2, max_cmds=2, budget=8),
               "small": dict(max_depth=1, max_files=4, max_subdirs=2, max_cmds=1, budget=3)}[cfg["tree"]]
    tree_kw["with_mod"] = False

    @st.composite
    def world(draw):
        auto = draw(st.sampled_from([True, True, False]))
        pool = gen.LOC_NAMES if cfg["collide_ancestor"] else SAFE_LOC
        site = gen.draw_site(draw, loc_pool=pool, tree_kw=tree_kw, auto_exclude=auto)
        cand = None
        if cfg["collide_ancestor"] and site.tree and draw(st.booleans()):
            # on purpose: an ancestor directory of the input is named like something a pattern will name
            cand = draw(st.sampled_from(sorted({posixpath.basename(r) for r in site.tree})))
            if gen.pattern_ok(cand):
                site.loc = site.loc + [cand]
                site.rel = "/".join(site.loc)
                site.proj = posixpath.join(site.rel, site.proj_name)
            else:
                cand = None
        globby = any(ch in comp for comp in site.loc for ch in "[]*?\\")
        # an absolute-path pattern would have to escape such characters; written literally it is a different pattern
        pats = gen.draw_patterns(draw, site, max_patterns=cfg["max_patterns"], allow_abs=cfg["allow_abs"] and not globby,
                                 allow_root=cfg["allow_root"], allow_ancestor_hits=cfg["collide_ancestor"])
        if cand is not None:
            form = draw(st.sampled_from([cand, "**/" + cand]))
            if form not in pats:
                pats.append(form)
        if cfg.get("twin_names") and cand is None:
            # the same name once as a directory and once as a plain file, in different directories; NAME/ must
            # exclude the one and not the other; bare (slash-free) patterns only
            dirs_ = sorted(d for d in refs.tree_dirs(site.tree) if d)
            if dirs_:
                d = draw(st.sampled_from(dirs_))
                dname = posixpath.basename(d)
                homes = [h for h in sorted(refs.tree_dirs(site.tree)) if h != posixpath.dirname(d)
                         and posixpath.join(h, dname) not in site.tree and h != d and not h.startswith(d + "/")]
                if homes:
                    h = draw(st.sampled_from(homes))
                    site.tree[posixpath.join(h, dname)] = "set(zqtwin 1)\n" if refs.is_cmake(dname) else \
                        f"a plain file named like the directory {dname}\n"
                    pats = [p for p in pats if "/" not in p.rstrip("/") and not p.startswith("{BASE}")]
                    if dname + "/" not in pats and gen.pattern_ok(dname + "/") and not gen.hits_ancestor(dname + "/", site):
                        pats.append(dname + "/")
        recursive = draw(st.sampled_from([True, True, True, False]))
        files = gen.base_files(site)
        files["cfg"] = None
        out = posixpath.join(site.rel, "out") if site.rel else "out"
        ch = refs.children(site.tree)
        # directories in which >= 2 entries match some pattern: the schedules that matter
        ig = refs.Ignore([p.replace("{BASE}", "/B") for p in pats], "/B/" + site.proj)
        hard = []
        for d, (subs, fs) in sorted(ch.items()):
            n = sum(1 for s in subs if ig.self_match(posixpath.join(d, s), True)) + \
                sum(1 for f in fs if ig.self_match(posixpath.join(d, f), False))
            if n >= 2:
                hard.append(d)
        variants = []
        cwds = sorted({"", site.rel, site.proj, "elsewhere"})
        for _ in range(cfg["variants"]):
            key, explicit = gen.listing_schedule(draw, hard, site.tree, prefix=site.proj)
            cwd = draw(st.sampled_from(cwds))
            variants.append({
                "cwd": cwd,
                "input": gen.spell(draw, cwd, site.proj),
                "output": gen.spell(draw, cwd, out, is_dir=False),
                "listing_key": key, "listing_explicit": explicit,
                "sources": [draw(st.integers(0, 2)) for _ in pats],
                "rec_src": draw(st.integers(0, 2)),
                # no -o: pages go to stdout, the exclusion obligations are the same
                "stdout": draw(st.integers(0, 4)) == 0,
                # an excluded directory that cannot be listed must not matter: it is never looked into
                "unlistable_excluded_dir": draw(st.integers(0, 3)) == 0,
                # another directory documented first in the same invocation (the patterns must still hold for this one)
                "decoy_first": draw(st.integers(0, 3)) == 0,
                # the cminx logger quieter than its default DEBUG (a complete logging section in the -s file or
                # the user configuration): what is logged must not decide what is excluded
                "log_level": draw(st.sampled_from([None, None, "INFO", "WARNING", "ERROR"])),
                "log_src": draw(st.integers(1, 2)),
            })
        return {"files": files, "proj": site.proj, "out": out, "patterns": pats, "recursive": recursive,
                "auto_exclude": auto, "variants": variants}
    return world()


LOGGING_YAML = """logging:
  version: 1
  formatters:
    simple:
      format: '%%(name)s - %%(levelname)s - %%(message)s'
  handlers:
    console:
      class: logging.StreamHandler
      level: INFO
      formatter: simple
      stream: ext://sys.stdout
  loggers:
    cminx:
      level: %s
      handlers: [console]
      propagate: no
  root:
    level: DEBUG
    handlers: [console]
"""
DECOY = "decoys/zzdecoy/zzdecoy_mod.cmake"
DECOY_PAGES = {"zzdecoy_mod.rst", "index.rst"}


def tree_of(spec):
    pre = spec["proj"] + "/"
    return {rel[len(pre):]: c for rel, c in spec["files"].items() if rel.startswith(pre)}


def variant_setup(spec, var):
    """-> (overlay files, argv)"""
    pats = spec["patterns"]
    by = {0: [], 1: [], 2: []}
    for p, s in zip(pats, var["sources"]):
        by[s].append(p)
    sfile_in, user_in = {}, {}
    argv = []
    if not spec["auto_exclude"]:
        (sfile_in if var["rec_src"] != 2 else user_in)["auto_exclude_directories_without_cmake"] = False
    if spec["recursive"]:
        if var["rec_src"] == 0:
            argv.append("-r")
        elif var["rec_src"] == 1:
            sfile_in["recursive"] = True
        else:
            user_in["recursive"] = True
    s_text = build_config(by[1], sfile_in)
    u_text = build_config(by[2], user_in)
    if var.get("log_level"):
        if var.get("log_src") == 1:
            s_text = (s_text or "") + LOGGING_YAML % var["log_level"]
        else:
            u_text = (u_text or "") + LOGGING_YAML % var["log_level"]
    overlay = {}
    if s_text:
        overlay["cfg/s.yaml"] = s_text
        argv += ["-s", "{BASE}/cfg/s.yaml"]
    if u_text:
        overlay["home/.config/cminx/config.yaml"] = u_text
    for p in by[0]:
        argv += ["-e", p]
    argv += (["-o", var["output"]] if not var.get("stdout") else [])
    if var.get("decoy_first") and not var.get("stdout"):
        overlay[DECOY] = "set(zqdecoy 1)\n"
        argv.append("{BASE}/" + posixpath.dirname(DECOY))
    argv.append(var["input"])
    return overlay, argv


def evaluate(spec, ctx):
    viols = []
    tree = tree_of(spec)
    proj, out = spec["proj"], spec["out"]
    base = core.new_base()
    try:
        core.materialise(base, spec["files"])
        abs_in = base + "/" + proj
        pats = [p.replace("{BASE}", base) for p in spec["patterns"]]
        ig = refs.Ignore(pats, abs_in)
        walk = refs.ref_walk(tree, spec["recursive"], spec["auto_exclude"], ig)
        expected = refs.expected_outputs(walk)
        ch = refs.children(tree)
        matched_any = ig.root_excluded() or any(ig.self_match(r, c is None) for r, c in tree.items())
        anc_hits = ig.ancestor_component_hits()
        if any(ch in abs_in for ch in "[]*?"):
            ctx.probes["ancestor_with_glob_characters"] += 1
        if anc_hits:
            ctx.probes["ancestor_named_like_pattern"] += 1
        dnames = {posixpath.basename(r) for r, c in tree.items() if c is None}
        if any(c is not None and posixpath.basename(r) in dnames and (posixpath.basename(r) + "/") in spec["patterns"]
               for r, c in tree.items()):
            ctx.probes["dir_and_file_share_a_name"] += 1
        if ig.root_excluded():
            ctx.probes["root_excluded"] += 1
        if any(p.startswith("/") for p in pats):
            ctx.probes["abs_pattern"] += 1
        if walk.emptied:
            ctx.probes["dir_emptied_by_exclusion"] += 1
        if not spec["recursive"]:
            ctx.probes["nonrecursive"] += 1
        if not spec["auto_exclude"]:
            ctx.probes["auto_exclude_off"] += 1
        if any(ch.get(d, ([], []))[1] or ch.get(d, ([], []))[0] for d in walk.pattern_excluded_dirs):
            ctx.probes["excluded_dir_with_content"] += 1
        seen_sets = []
        for vi, var in enumerate(spec["variants"]):
            overlay, argv = variant_setup(spec, var)
            remove_outputs(base, ["cfg/s.yaml", "home/.config/cminx/config.yaml", out])
            core.materialise(base, {k: v.replace("{BASE}", base) for k, v in overlay.items()})
            for s in set(var["sources"]):
                ctx.probes[("pattern_from_cli", "pattern_from_sfile", "pattern_from_user_config")[s]] += 1
            call = {"cwd": var["cwd"], "argv": argv, "listing_key": var["listing_key"],
                    "listing_explicit": var["listing_explicit"]}
            if var.get("unlistable_excluded_dir") and walk.pattern_excluded_dirs and not ig.root_excluded():
                call["faults"] = [{"seam": "scandir", "errno": "EACCES",
                                   "path": posixpath.join(proj, walk.pattern_excluded_dirs[0])}]
                ctx.probes["unlistable_excluded_dir"] += 1
            res = core.run_call(base, call)
            ctx.note_call(res)
            ctx.note_case(core.spec_digest([tree, spec["patterns"], var["sources"], var["listing_key"],
                                            var["listing_explicit"], spec["recursive"], spec["auto_exclude"]]),
                          matched_any)
            got = created_under(res, out)
            decoy = bool(var.get("decoy_first") and not var.get("stdout"))
            if var.get("log_level"):
                ctx.probes["logger_level_above_debug"] += 1
            if decoy:
                ctx.probes["other_input_first"] += 1
                got = got - {"zzdecoy_mod.rst"}
            where = f"variant {vi}" + (" (another directory documented first)" if decoy else "")
            if res.fired:
                viols.append(viol("excluded-entry-processed", f"{where}: the excluded directory "
                                  f"{walk.pattern_excluded_dirs[0]} was listed (it is unreadable here: {res.fired})",
                                  cause="looked-into-excluded-dir", how="listed"))
            if res.status != 0:
                viols.append(viol("run-failed", f"{where}: status {res.status} exc {res.exc}"))
                continue
            if var.get("stdout"):
                ctx.probes["stdout_mode"] += 1
                if res.created or res.changed:
                    viols.append(viol("run-failed", f"{where}: stdout mode created {res.created[:4]}"))
            elif not (decoy and (ig.root_excluded() or anc_hits)):
                # (where the whole input is excluded - by a pattern, or through known finding F5 - the top index.rst of
                # the other directory stays behind: not comparable with a run without it)
                seen_sets.append(got)
            # --- per-event invariant: nothing below an excluded directory is listed, no excluded file is opened
            pre = proj + "/"
            for _seq, op, rel, detail, _outc in res.events:
                if not rel.startswith(pre):
                    continue
                r = rel[len(pre):]
                if op == "open" and "r" in str(detail) and ig.excluded(r, False):
                    viols.append(viol("excluded-entry-processed", f"{where}: excluded file {r} was opened",
                                      cause=_cause(ig, res, proj, r, False), how="opened"))
                if op == "scandir" and posixpath.dirname(r) != "" and ig.excluded(posixpath.dirname(r), True):
                    viols.append(viol("excluded-entry-processed",
                                      f"{where}: directory {r} below an excluded directory was listed",
                                      cause=_cause_dir_chain(ig, res, proj, r), how="descended"))
            # --- adjacency probes (only meaningful where two matching siblings exist)
            _adjacency_probes(ctx, ig, res, proj, ch)
            if var.get("stdout"):
                if ig.root_excluded() and ".. module::" in res.stdout:
                    viols.append(viol("excluded-input-produced-output", f"{where}: stdout {res.stdout[:80]!r}"))
                if viols:
                    break
                continue
            # --- post-hoc: page set
            for g in sorted(got):
                src_dir = posixpath.dirname(g)
                if posixpath.basename(g) == "index.rst":
                    if src_dir and ig.excluded(src_dir, True):
                        viols.append(viol("excluded-entry-processed", f"{where}: index written for excluded dir {src_dir}",
                                          cause=_cause_dir_chain(ig, res, proj, src_dir + "/x"), how="index"))
                else:
                    srcs = [f for f in ch.get(src_dir, ([], []))[1]
                            if refs.is_cmake(f) and refs.stem(f) == posixpath.basename(g)[:-4]]
                    for f in srcs:
                        r = posixpath.join(src_dir, f)
                        if ig.excluded(r, False):
                            viols.append(viol("excluded-entry-processed", f"{where}: page {g} written for excluded {r}",
                                              cause=_cause(ig, res, proj, r, False), how="page"))
            if not walk.ambiguous:
                missing = sorted(expected - got)
                if missing:
                    cause = "pattern-matches-ancestor" if anc_hits else "other"
                    viols.append(viol("processed-entry-missing",
                                      f"{where}: not generated although no pattern excludes them: {missing[:6]}"
                                      + (f"; patterns {anc_hits} match a path component above the input" if anc_hits else ""),
                                      cause=cause))
            else:
                # even in the ambiguous zone every non-excluded CMake file of a processed chain that does not pass
                # through an emptied directory must have its page
                for f in walk.files:
                    if not any(f.startswith(e + "/") or e == "" for e in walk.emptied):
                        if refs.stem(f) + ".rst" not in got:
                            viols.append(viol("processed-entry-missing", f"{where}: page for {f} missing",
                                              cause="pattern-matches-ancestor" if anc_hits else "other"))
            if ig.root_excluded() and decoy:
                if got - DECOY_PAGES:
                    viols.append(viol("excluded-input-produced-output", f"{where}: created {sorted(got - DECOY_PAGES)[:5]}"))
            elif ig.root_excluded():
                if res.created or res.changed or ".. module::" in res.stdout:
                    viols.append(viol("excluded-input-produced-output",
                                      f"{where}: created {res.created[:5]} stdout {res.stdout[:80]!r}"))
            if viols:
                break
        if not viols and seen_sets and any(s != seen_sets[0] for s in seen_sets):
            viols.append(viol("result-depends-on-schedule-or-source",
                              f"output sets differ across variants: {[sorted(s) for s in seen_sets][:3]}"))
    finally:
        core.drop_base(base)
    return _dedup(viols)


def _dedup(viols):
    seen, out = set(), []
    for v in viols:
        k = (v["clause"], tuple(sorted(v["sig"].items())))
        if k not in seen:
            seen.add(k)
            out.append(v)
    return out


def _cause(ig, res, proj, rel, is_dir):
    """'adjacent-in-listing' iff, in the order the parent directory was listed, the entry directly follows
    another entry of the same kind that itself matches a pattern."""
    parent = posixpath.dirname(rel)
    order = listing_of(res, posixpath.join(proj, parent) if parent else proj)
    if not order:
        return "other"
    name = posixpath.basename(rel)

    def kind_is_dir(n):
        return (posixpath.join(proj, parent, n) if parent else posixpath.join(proj, n)) in _dirs_cache(res)
    same = [n for n in order if kind_is_dir(n) == is_dir]
    if name in same:
        i = same.index(name)
        if i > 0 and ig.self_match(posixpath.join(parent, same[i - 1]), is_dir):
            return "adjacent-in-listing"
    return "other"


def _dirs_cache(res):
    return {k for k, v in res.before.items() if v == "d"}


def _cause_dir_chain(ig, res, proj, rel):
    """For something below an excluded directory: find the top-most self-matching ancestor and classify it."""
    parts = rel.split("/")
    for i in range(1, len(parts)):
        anc = "/".join(parts[:i])
        if ig.self_match(anc, True):
            return _cause(ig, res, proj, anc, True)
    return "other"


def _adjacency_probes(ctx, ig, res, proj, ch):
    dirs = _dirs_cache(res)
    for d, order in res.listings:
        if d != proj and not d.startswith(proj + "/"):
            continue
        rd = d[len(proj) + 1:] if d != proj else ""
        for is_dir in (True, False):
            same = [n for n in order if ((posixpath.join(d, n) in dirs) == is_dir)]
            m = [ig.self_match(posixpath.join(rd, n), is_dir) for n in same]
            if sum(m) >= 2:
                if any(a and b for a, b in zip(m, m[1:])):
                    ctx.probes["two_excluded_siblings_adjacent"] += 1
                else:
                    ctx.probes["two_excluded_siblings_separated"] += 1

MANIFEST = {
    "engine": "E1 simworld",
    "design_ref": "DESIGN.md section 3 (C15), section 2",
    "technique": "deterministic simulation: seeded search over directory-listing schedules x pattern sources x placements with event-level invariants and a gitignore reference model",
    "level_text": "Seeded exploration: the real CLI runs in simulated worlds whose every directory listing order is chosen by the "
                  "simulator (seeded key or explicit permutation, several schedules per world), patterns arrive through -e, -s file "
                  "and user config, and the tree sits at generated locations.  Invariant per event (no excluded file opened, nothing "
                  "below an excluded directory listed) plus page set == reference walk with an independent gitignore matcher, "
                  "identical across schedules and sources.  Variants may document another directory first in the same invocation "
                  "and may set the cminx logger above DEBUG from a configuration file.  Sampling, not proof.",
    "level_note": "trusted: the 40-line reference matcher for the generated pattern forms, tmpfs, third-party libraries as installed; "
                  "relative patterns with inner slashes are not generated",
}
