"""C16 - settings layer as command line > -s file > user config > defaults.

Three of the four sources are files found through HOME / XDG_CONFIG_HOME /
CMINXDIR, the working directory and a command-line path - environment the
simulator owns - and a relative output.directory resolves against a directory
that depends on which source set it.  The Settings object cminx.main() would
hand to cminx.document() is captured (document is replaced by a recorder) and
compared field by field with a small reference model.  A separate
fault-injecting configuration makes a source unreadable or tears it.

Replay spec: {"sources": {"cli": {dotted key: value}, "sfile": {...}, "user": {...}}, "user_where": home|xdg|cminxdir,
 "cwd", "sfile_path", "sfile_abs", "wrong": {"key","source"}|null, "fault": {"kind": "read"|"torn", "source", ...}|null}
"""
import os
import posixpath

import yaml
from hypothesis import strategies as st

from .. import core
from .common import E1_ASSUMPTIONS, E1_COMPONENTS, remove_outputs, viol, yaml_dump

ID = "C16"
LEVEL = "exploration"
TIERS = {
    "quick": {"shards": 128, "examples": 80, "det_shards": 2},
    "thorough": {"shards": 2048, "examples": 300, "det_shards": 8},
}
RULE = ("case = one assignment of values to (option, source) pairs over the input/output/rst sections and the sources "
        "{command line, -s file, user config in ~/.config | $XDG_CONFIG_HOME | $CMINXDIR}, with a cwd, a spelling of -s, and "
        "optionally one wrong-typed value or one source fault (EACCES/EIO on open, torn file); non-trivial iff >= 2 sources set "
        "the same key with different values, or a wrong-typed value or a fault is present; distinct by sha256(sources, argv, env, cwd)")
COMPONENTS = dict(E1_COMPONENTS, stub=["cminx.document is replaced by a recorder for the capture run (the Settings object is the "
                                       "observation point named by the property); a second, un-intercepted run checks where pages land"])
ASSUMPTIONS = E1_ASSUMPTIONS + [
    "wrong-typed values are restricted to clear-cut mismatches (bool <- str/int/null, string <- list/int, filename <- int/list, "
    "headers <- int, exclude_filters <- scalar string/int); a whitespace-separated string for rst.headers is documented as valid",
    "a wrong-typed value is only placed where no higher-priority source sets the same key (otherwise it is not 'in effect')",
    "the logging section is not compared"]
PROBES = ["two_inputs", "empty_string_on_command_line", "conflict_cli_vs_sfile", "conflict_sfile_vs_user", "conflict_cli_vs_user", "three_way_conflict", "only_default",
          "exclude_union_multi_source", "outdir_rel_cwd", "outdir_rel_config_sfile", "outdir_rel_config_user",
          "outdir_rel_config_cli", "user_in_home", "user_in_xdg", "user_in_cminxdir", "sfile_relative", "wrong_type",
          "fault_read_error", "fault_torn", "torn_still_mapping", "pages_land_checked"]

BOOL_KEYS = ["include_undocumented_function", "include_undocumented_macro", "include_undocumented_cpp_class",
             "include_undocumented_cpp_attr", "include_undocumented_cpp_constructor", "include_undocumented_cpp_member",
             "include_undocumented_ct_add_test", "include_undocumented_add_test", "include_undocumented_ct_add_section",
             "include_undocumented_option", "auto_exclude_directories_without_cmake", "recursive", "follow_symlinks"]
STR_KEYS = ["kwargs_doc_trigger_string", "function_parameter_name_strip_regex", "macro_parameter_name_strip_regex",
            "member_parameter_name_strip_regex"]
RST_BOOL = ["file_extensions_in_titles", "file_extensions_in_modules"]
SRC = ("cli", "sfile", "user")


def load_defaults():
    with open(os.path.join(core.REPO, "src", "cminx", "config_default.yaml")) as f:
        return yaml.safe_load(f)


def swarm(rng, tier):
    return {
        "density": rng.choice([0.03, 0.15, 0.3, 0.6]),
        "wrong_type": rng.random() < 0.25,
        "fault": rng.choice([None, None, "read", "torn"]),
        "user_where": rng.choice(["home", "xdg", "cminxdir", "home"]),
    }


def strategy(cfg):
    dens = cfg["density"]

    @st.composite
    def world(draw):
        def maybe():
            return draw(st.integers(0, 99)) >= int(100 * (1 - dens))     # shrinks towards "unset"

        src = {"cli": {}, "sfile": {}, "user": {}}      # dotted key -> value
        for k in BOOL_KEYS:
            for s in ("sfile", "user"):
                if maybe():
                    src[s]["input." + k] = draw(st.booleans())
        if maybe():
            src["cli"]["input.recursive"] = True
        for k in STR_KEYS:
            for i, s in enumerate(("sfile", "user")):
                if maybe():
                    src[s]["input." + k] = f"{k[:3]}_{s}_{draw(st.integers(0, 3))}"
        for k in RST_BOOL:
            for s in ("sfile", "user"):
                if maybe():
                    src[s]["rst." + k] = draw(st.booleans())
        for s in ("sfile", "user"):
            if maybe():
                src[s]["rst.module_path_separator"] = {"sfile": "::", "user": "-"}[s]
            if maybe():
                src[s]["rst.headers"] = draw(st.sampled_from([["=", "-", "~"], "^ ~ +", ["*"]])) if s == "sfile" \
                    else draw(st.sampled_from([["!", "@"], "& _"]))
        for s in SRC:
            if maybe():
                src[s]["rst.prefix"] = "pfx_" + s if not (s == "cli" and draw(st.integers(0, 5)) == 0) else ""
            if maybe():
                # 0 patterns = the key is set, to an empty list (not the same as unset)
                src[s]["input.exclude_filters"] = [f"pat_{s}_{j}" for j in range(draw(st.integers(0, 3)))] if s != "cli" \
                    else [["pat_cli_0"], [".hidden_cli", "pat_cli_1"], ["./rel_cli/"], ["..up_cli", ".cache/", "pat_cli_2"]][draw(st.integers(0, 3))]
            if maybe():
                src[s]["output.directory"] = draw(st.sampled_from(["outdir_" + s, "sub/out_" + s, "{BASE}/abs_out_" + s]
                                                                  + ([""] if s == "cli" else [])))
        for s in ("sfile", "user"):
            if maybe():
                src[s]["output.relative_to_config"] = draw(st.booleans())
        user_where = cfg["user_where"]
        cwd = draw(st.sampled_from(["w", "w/deep", "elsewhere", ""]))
        sfile_path = draw(st.sampled_from(["cfg/s.yaml", "w/settings/my.yaml"]))
        sfile_abs = draw(st.booleans())
        wrong = None
        if cfg["wrong_type"]:
            key, val = draw(st.sampled_from(WRONG))
            s = draw(st.sampled_from(["sfile", "user"]))
            # only where it is in effect: drop the key from higher-priority sources
            if key != "input.exclude_filters":      # exclude patterns are a union: every source is in effect
                for hs in SRC[:SRC.index(s)]:
                    src[hs].pop(key, None)
            src[s][key] = val
            wrong = {"key": key, "source": s}
        fault = None
        if cfg["fault"] and wrong is None and (src["sfile"] or src["user"]):
            target = draw(st.sampled_from([s for s in ("sfile", "user") if src[s]]))
            if cfg["fault"] == "read":
                fault = {"kind": "read", "source": target, "errno": draw(st.sampled_from(["EACCES", "EIO"]))}
            else:
                fault = {"kind": "torn", "source": target, "cut": draw(st.integers(1, 400))}
        return {"sources": src, "user_where": user_where, "cwd": cwd, "sfile_path": sfile_path, "sfile_abs": sfile_abs,
                "wrong": wrong, "fault": fault, "second_input": draw(st.integers(0, 3)) == 0}
    return world()


WRONG = [("input.recursive", "yes"), ("input.include_undocumented_macro", 2), ("input.follow_symlinks", None),
         ("rst.module_path_separator", ["a", "b"]), ("rst.module_path_separator", 3), ("input.kwargs_doc_trigger_string", True),
         ("rst.prefix", 7), ("rst.headers", 3), ("input.exclude_filters", "build/"), ("input.exclude_filters", 5),
         ("output.directory", 5), ("output.relative_to_config", "true"), ("rst.file_extensions_in_titles", "no")]


def nest(flat):
    out = {}
    for k, v in flat.items():
        sec, _, name = k.partition(".")
        out.setdefault(sec, {})[name] = v
    return out


def user_paths(spec):
    """-> (env, config file relpath)"""
    where = spec["user_where"]
    if where == "home":
        return {}, "home/.config/cminx/config.yaml"
    if where == "xdg":
        return {"XDG_CONFIG_HOME": "{BASE}/xdg"}, "xdg/cminx/config.yaml"
    return {"CMINXDIR": "{BASE}/cmdir"}, "cmdir/config.yaml"


def build_argv(spec, input_arg):
    cli = spec["sources"]["cli"]
    argv = []
    if spec["sources"]["sfile"] or (spec["fault"] and spec["fault"]["source"] == "sfile"):
        p = spec["sfile_path"]
        argv += ["-s", "{BASE}/" + p if spec["sfile_abs"] else posixpath.relpath(p, spec["cwd"] or ".")]
    if cli.get("input.recursive"):
        argv.append("-r")
    if "rst.prefix" in cli:
        argv += ["-p", cli["rst.prefix"]]
    for p in cli.get("input.exclude_filters", []):
        argv += ["-e", p]
    if "output.directory" in cli:
        argv += ["-o", cli["output.directory"]]
    argv.append(input_arg)
    return argv


def ref_settings(defaults, sources, base, cwd_abs, sfile_abs_path, user_abs_path):
    """First source that sets the key; union for exclude_filters; output-directory base rule.
    sources: {"cli": flat, "sfile": flat, "user": flat} -> flat dict of expected values."""
    flat_def = {}
    for sec in ("input", "output", "rst"):
        for k, v in (defaults.get(sec) or {}).items():
            flat_def[f"{sec}.{k}"] = v
    keys = set(flat_def) | {"input.exclude_filters", "output.directory", "rst.prefix"}
    for s in SRC:
        keys |= set(sources[s])
    out = {}
    for k in keys:
        if k == "input.exclude_filters":
            pats = []
            for s in SRC:
                pats += list(sources[s].get(k, []))
            out[k] = sorted(pats)
            continue
        for s in SRC:
            if k in sources[s]:
                out[k] = sources[s][k]
                origin = s
                break
        else:
            out[k] = flat_def.get(k)
            origin = "default"
        if k == "output.directory" and out[k] is not None:
            v = out[k].replace("{BASE}", base)
            if not os.path.isabs(v):
                rtc = None
                for s in SRC:
                    if "output.relative_to_config" in sources[s]:
                        rtc = sources[s]["output.relative_to_config"]
                        break
                if rtc is None:
                    rtc = flat_def.get("output.relative_to_config", False)
                if rtc and origin == "sfile":
                    v = os.path.join(os.path.dirname(sfile_abs_path), v)
                elif rtc and origin == "user":
                    v = os.path.join(os.path.dirname(user_abs_path), v)
                else:
                    v = os.path.join(cwd_abs, v)
            out[k] = os.path.normpath(v)
    hd = out.get("rst.headers")
    if isinstance(hd, str):
        out["rst.headers"] = hd.split()
    return out


def observed(settings):
    out = {}
    for sec in ("input", "output", "rst"):
        obj = getattr(settings, sec)
        for k, v in vars(obj).items():
            out[f"{sec}.{k}"] = v
    out["input.exclude_filters"] = sorted(out.get("input.exclude_filters") or [], key=str)
    if out.get("rst.headers") is not None:
        out["rst.headers"] = list(out["rst.headers"])
    if out.get("output.directory") is not None:
        out["output.directory"] = os.path.normpath(out["output.directory"])
    return out


def evaluate(spec, ctx):
    viols = []
    base = core.new_base()
    try:
        defaults = load_defaults()
        env, user_rel = user_paths(spec)
        files = {"home/.config/cminx": None, "tmp": None, "xdgdirs": None, "w/deep": None, "elsewhere": None,
                 "cfg": None, "w/settings": None, "xdg/cminx": None, "cmdir": None,
                 "w/in/m.cmake": "function(zqf0n0 a)\nendfunction()\n"}
        core.materialise(base, files)
        src = spec["sources"]
        texts = {}
        if src["sfile"]:
            texts["sfile"] = yaml_dump(nest(src["sfile"])).replace("{BASE}", base)
        if src["user"]:
            texts["user"] = yaml_dump(nest(src["user"])).replace("{BASE}", base)
        paths = {"sfile": spec["sfile_path"], "user": user_rel}
        fault = spec["fault"]
        call_faults = []
        eff_sources = {s: dict(src[s]) for s in SRC}
        expect_loud = False
        judge = True
        if fault and fault["source"] in texts:
            if fault["kind"] == "torn":
                ctx.probes["fault_torn"] += 1
                t = texts[fault["source"]]
                cut = min(fault["cut"], max(1, len(t) - 1))
                texts[fault["source"]] = t[:cut]
                try:
                    parsed = yaml.safe_load(t[:cut])
                except yaml.YAMLError:
                    parsed = "<error>"
                if parsed == "<error>" or (parsed is not None and not isinstance(parsed, dict)):
                    expect_loud = True
                elif parsed is None:
                    eff_sources[fault["source"]] = {}
                else:
                    ok = all(isinstance(v, dict) for v in parsed.values()) and \
                        all(k in ("input", "output", "rst") for k in parsed)
                    flat = {}
                    if ok:
                        for sec, d in parsed.items():
                            for k, v in d.items():
                                flat[f"{sec}.{k}"] = v
                        full = src[fault["source"]]
                        # every surviving key must carry its complete original value, else the shape is ambiguous
                        ok = all(k in full and _same(full[k], v, base) for k, v in flat.items())
                    if ok:
                        ctx.probes["torn_still_mapping"] += 1
                        eff_sources[fault["source"]] = {k: full[k] for k in flat}
                    else:
                        judge = False
                        ctx.discarded["torn-shape-ambiguous"] += 1
            else:
                ctx.probes["fault_read_error"] += 1
                expect_loud = True
        for s, t in texts.items():
            core.materialise(base, {paths[s]: t})
        if fault and fault["kind"] == "read" and fault["source"] in texts:
            # which read-mode open is it?  user config is opened first, then the packaged defaults, then the -s file
            order = [s for s in ("user",) if s in texts] + ["default"] + [s for s in ("sfile",) if s in texts]
            call_faults = [{"seam": "open_r", "nth": order.index(fault["source"]) + 1, "errno": fault["errno"]}]
        if spec["wrong"]:
            ctx.probes["wrong_type"] += 1
            expect_loud = True
        argv = build_argv(spec, "{BASE}/w/in/m.cmake")
        if spec.get("second_input"):
            core.materialise(base, {"w/in2/k.cmake": "function(zqf1n0 a)\nendfunction()\n"})
            argv.append("{BASE}/w/in2/k.cmake")
            ctx.probes["two_inputs"] += 1
        call = {"cwd": spec["cwd"], "argv": argv, "listing_key": 0, "faults": call_faults}
        res = core.run_call(base, call, env=env, snap=False, capture_settings=True)
        ctx.note_call(res)
        _probes(ctx, spec)
        nontriv = bool(spec["wrong"] or fault) or any(
            len({repr(src[s][k]) for s in SRC if k in src[s]}) >= 2 for k in set().union(*[set(src[s]) for s in SRC]))
        ctx.note_case(core.spec_digest([src, argv, spec["user_where"], spec["cwd"], spec["wrong"], fault]), nontriv)
        if call_faults and not res.fired:
            return [viol("harness-fault-not-fired", f"planned {call_faults} did not fire; events {res.events[:6]}")]
        if expect_loud:
            if res.status == 0 or res.captured:
                what = f"wrong-typed {spec['wrong']}" if spec["wrong"] else f"source fault {fault}"
                got = observed(res.captured[0][1]) if res.captured else {}
                k = spec["wrong"]["key"] if spec["wrong"] else None
                viols.append(viol("wrong-type-accepted" if spec["wrong"] else "unreadable-source-ignored",
                                  f"{what}: status {res.status}, document() called {len(res.captured or [])}x"
                                  + (f", value in effect {got.get(k)!r}" if k else ""),
                                  key=k or fault["source"],
                                  vtype=type(src[spec["wrong"]["source"]][k]).__name__ if k else fault["kind"]))
            return viols
        if not judge:
            return viols
        if res.status != 0 or not res.captured:
            viols.append(viol("run-failed", f"status {res.status} exc {res.exc} captured {len(res.captured or [])}"))
            return viols
        cwd_abs = os.path.join(base, spec["cwd"]) if spec["cwd"] else base
        want = ref_settings(defaults, eff_sources, base, cwd_abs, os.path.join(base, spec["sfile_path"]),
                            os.path.join(base, user_rel))
        import copy as _copy
        snapshots = [observed(_copy.copy(c[1])) for c in res.captured]      # one per input, in order
        got = snapshots[0]
        for n_, snap_ in enumerate(snapshots[1:], 2):
            for k in sorted(want):
                if k in snap_ and not _same(want[k], snap_[k], base):
                    viols.append(viol("wrong-value-in-effect",
                                      f"{k}: for input #{n_} of the same invocation {snap_[k]!r} is in effect, expected {want[k]!r}",
                                      key=k, rule="later-input"))
        for k in sorted(want):
            if k not in got:
                viols.append(viol("setting-missing", f"{k} absent from the Settings object"))
                continue
            if not _same(want[k], got[k], base):
                who = [s for s in SRC if k in eff_sources[s]]
                viols.append(viol("wrong-value-in-effect",
                                  f"{k}: in effect {got[k]!r}, expected {want[k]!r}; set by {who or ['default only']}",
                                  key=k, rule="union" if k == "input.exclude_filters" else
                                  ("outdir-base" if k == "output.directory" else "precedence")))
        # --- second, un-intercepted run: pages land where the reference says
        if not viols and want.get("output.directory") and not fault:
            r2 = core.run_call(base, dict(call, faults=[]), env=env, snap=True)
            ctx.note_call(r2)
            ctx.probes["pages_land_checked"] += 1
            page = os.path.relpath(os.path.join(want["output.directory"], "m.rst"), base)
            if r2.status != 0 or page not in r2.created:
                viols.append(viol("pages-land-elsewhere", f"expected {page}; status {r2.status}; created {r2.created[:6]}"))
    finally:
        core.drop_base(base)
    return viols


def _same(a, b, base):
    if isinstance(a, str):
        a = a.replace("{BASE}", base)
    if isinstance(b, str):
        b = b.replace("{BASE}", base)
    if isinstance(a, (list, tuple)) and isinstance(b, (list, tuple)):
        return list(a) == list(b)
    return a == b and type(a) is type(b) or (a is None and b is None)


def _probes(ctx, spec):
    src = spec["sources"]
    if any(v == "" for v in src["cli"].values()):
        ctx.probes["empty_string_on_command_line"] += 1
    keys = set().union(*[set(src[s]) for s in SRC])
    if not keys:
        ctx.probes["only_default"] += 1
    for k in keys:
        if k == "input.exclude_filters":
            if sum(1 for s in SRC if k in src[s]) >= 2:
                ctx.probes["exclude_union_multi_source"] += 1
            continue
        have = [s for s in SRC if k in src[s]]
        if len(have) == 3:
            ctx.probes["three_way_conflict"] += 1
        for a, b in (("cli", "sfile"), ("sfile", "user"), ("cli", "user")):
            if a in have and b in have and src[a][k] != src[b][k]:
                ctx.probes[f"conflict_{a}_vs_{b}"] += 1
    od = None
    for s in SRC:
        if "output.directory" in src[s]:
            od = (s, src[s]["output.directory"])
            break
    if od and isinstance(od[1], str) and not od[1].startswith("{BASE}"):
        rtc = None
        for s in SRC:
            if "output.relative_to_config" in src[s]:
                rtc = src[s]["output.relative_to_config"]
                break
        ctx.probes["outdir_rel_config_" + od[0] if rtc else "outdir_rel_cwd"] += 1
    ctx.probes["user_in_" + spec["user_where"]] += 1 if src["user"] else 0
    if src["sfile"] and not spec["sfile_abs"]:
        ctx.probes["sfile_relative"] += 1


MANIFEST = {
    "engine": "E1 simworld",
    "design_ref": "DESIGN.md section 3 (C16), section 2",
    "technique": "deterministic simulation of the configuration environment: four sources on the simulated disk located through "
                 "HOME / XDG_CONFIG_HOME / CMINXDIR / cwd / -s, Settings captured at the main()->document() boundary and compared "
                 "with a reference layering model; read faults and torn files on the sources",
    "level_text": "Seeded exploration: every option of input/output/rst set or unset per source with distinct values; the captured "
                  "Settings object must equal the reference (first source that sets the key, multiset union for exclude_filters, "
                  "output-directory base rule incl. relative_to_config), clear-cut wrong-typed values in effect must make the run "
                  "fail before document() is called, pages must land in the computed directory.  Fault shards: EACCES/EIO when a "
                  "source is opened must fail loudly; a torn source either fails loudly or yields exactly the settings of the "
                  "surviving complete keys.",
    "level_note": "trusted: the 50-line reference model, config_default.yaml of the working tree as the documented defaults, PyYAML to "
                  "re-parse torn files; torn files whose surviving shape is ambiguous are discarded and counted",
}
