"""C06 - unreadable input fails loudly, never silently truncated.

Fault injection on *stored input*: a generated valid module is torn (truncated)
or garbled (a stray quote, an invalid escape, a parenthesis, a bare word, an
unterminated bracket comment) at positions of known lexical context, singly and
in pairs; an independent scanner must agree the result is invalid; CMinx must
then exit non-zero and must not write (or print) a page for that file.

Replay spec: {"text": valid module, "tokens": [[kind, text], ...], "siblings": {name: text},
 "setting": {"mode": "o"|"stdout", "in_tree": bool, "stale": bool, "skew": bool, "undoc": [10 bools]|null},
 "plan": {"explicit": [[{"kind","pos","ctx"}, ...]]}            # narrowed replay: exactly the failing fault set
       | {"kinds": [...], "max_faults", "phase", "pairs", "pair_seed", "read_error": null|"EIO"|"EACCES"|"READ_EIO"|"READ_SHORT"}}
"""
import os
import posixpath
import random
import re

from hypothesis import strategies as st

from .. import cmakegen, cmakescan, core
from .common import E1_ASSUMPTIONS, E1_COMPONENTS, viol

ID = "C06"
LEVEL = "fault_enumeration"
TIERS = {
    "quick": {"shards": 96, "examples": 6, "det_shards": 2},
    "thorough": {"shards": 384, "examples": 6, "det_shards": 4},
}
RULE = ("case = (module, setting, fault set): for each generated valid module, every eligible position (thorough; a "
        "seeded stride of them in the quick tier) of each sampled fault kind {truncate, stray quote, invalid escape, "
        "backslash at EOF, extra ')', extra '(', deleted ')', bare word between commands, unterminated '#[[' and "
        "'#[=['} plus seeded pairs; non-trivial iff the independent cmake-language scanner classifies the corrupted "
        "text as invalid by one of the five families of the statement (others are discarded and counted); distinct by "
        "sha256(corrupted text, setting)")
COMPONENTS = E1_COMPONENTS
ASSUMPTIONS = E1_ASSUMPTIONS + [
    "faults are applied to the stored bytes of the input file before the run (torn / garbled file), positions come "
    "from the generator's token map; faults inside comments are outside the quantifier except truncation inside a "
    "bracket comment or doccomment (which leaves it unterminated)",
    "an unterminated bracket *argument* is not one of the families the statement names: such cases are discarded",
    "the fault-free configuration (same worlds, no corruption) must exit 0 and write the page"]
PROBES = ["fault_repeated_256_times", "stray_bytes_not_utf8", "healthy_input_after_faulty", "stale_page_newer_than_source", "settings_profile_used", "module_without_any_doccomment", "read_error_on_input", "family_unterminated-string", "family_unterminated-bracket-comment", "family_invalid-escape",
          "family_unbalanced-paren", "family_stray-text", "mode_o", "mode_stdout", "in_tree", "stale_page_present",
          "pair", "fault_between_commands", "fault_inside_arguments", "rest_of_file_swallowed_candidate"]

KINDS = ["truncate", "quote", "escape", "escape_eof", "rparen", "lparen", "del_rparen", "bareword", "bcomment",
         "bcomment_eq", "bareword_bytes", "many"]
COMMENT = (cmakegen.LC, cmakegen.BC, cmakegen.DOC)


def swarm(rng, tier):
    k = rng.randint(2, 4) if tier == "quick" else len(KINDS)
    return {
        "kinds": sorted(rng.sample(KINDS, k)),
        "max_faults": 70 if tier == "quick" else 100000,
        "max_cmds": rng.choice([1, 2, 3]) if tier == "quick" else rng.choice([1, 1, 2, 2]),
        "pairs": rng.choice([0, 4, 8]),
        "mode": rng.choice(["o", "o", "stdout", "mixed"]),
        "settings_profile": rng.choice([None, None, "undoc_off", "mixed"]),
    }


def strategy(cfg):
    @st.composite
    def world(draw):
        desc = draw(cmakegen.desc_strategy(max_cmds=cfg["max_cmds"]))
        # at least one command so that there is something to corrupt
        if not desc["cmds"]:
            desc["cmds"] = [{"k": draw(st.integers(0, len(cmakegen.KINDS) - 2)), "doc": 1, "v": draw(st.integers(0, 63)),
                             "n": 2}]
        profile = cfg.get("settings_profile")
        if profile and draw(st.booleans()):
            # a module without any doccomment: only the include_undocumented_* settings decide what is rendered
            desc = {"mod": None, "cmds": [dict(c, doc=0) for c in desc["cmds"] if cmakegen.KINDS[c["k"] % len(cmakegen.KINDS)] != "generic_doc"]
                    or [{"k": 0, "doc": 0, "v": 0, "n": 1}]}
        m = cmakegen.render(desc, "f0")
        mode = cfg["mode"] if cfg["mode"] != "mixed" else draw(st.sampled_from(["o", "stdout"]))
        in_tree = draw(st.booleans())
        siblings = {}
        if in_tree:
            siblings = {"aaa.cmake": cmakegen.render({"mod": None, "cmds": [{"k": 0, "doc": 1, "v": 0, "n": 1}]}, "s0").text,
                        "zzz.cmake": cmakegen.render({"mod": None, "cmds": [{"k": 2, "doc": 1, "v": 0, "n": 0}]}, "s1").text}
        return {"text": m.text, "tokens": [[k, t] for k, t in m.tokens],
                "setting": {"mode": mode, "in_tree": in_tree, "stale": mode == "o" and draw(st.booleans()),
                            # clock skew: the (faulty) source carries an old timestamp, the stale page looks newer
                            "skew": draw(st.booleans()),
                            "healthy_input_after": draw(st.integers(0, 3)) == 0,
                            "undoc": (None if not profile else
                                      ([False] * 10 if profile == "undoc_off" else [draw(st.booleans()) for _ in range(10)]))},
                "siblings": siblings,
                "plan": {"kinds": cfg["kinds"], "max_faults": cfg["max_faults"], "phase": draw(st.integers(0, 6)),
                         "pairs": cfg["pairs"], "pair_seed": draw(st.integers(0, 10 ** 6)),
                         "read_error": draw(st.sampled_from([None, None, "EIO", "EACCES", "READ_EIO", "READ_SHORT"]))}}
    return world()


# ---------------------------------------------------------------------------
# fault positions from the token map

def token_map(tokens):
    """-> list of (start, end, kind, depth_before)"""
    out, pos, depth = [], 0, 0
    for kind, text in tokens:
        out.append((pos, pos + len(text), kind, depth))
        if kind == cmakegen.LP:
            depth += 1
        elif kind == cmakegen.RP:
            depth -= 1
        pos += len(text)
    return out


def candidates(tokens, kinds):
    """All single faults of the given kinds: [{'kind','pos',('ctx')}]"""
    tm = token_map(tokens)
    n = tm[-1][1] if tm else 0
    out = []
    # per-offset context
    for (s, e, kind, depth) in tm:
        inside_comment = kind in COMMENT
        for p in range(s, e):
            interior = p > s
            at_cmd_start = (p == s and depth == 0 and kind == cmakegen.ID)
            ctx = "args" if (depth >= 1 or (kind == cmakegen.LP)) else "between"
            if inside_comment and interior:
                if "truncate" in kinds and kind in (cmakegen.BC, cmakegen.DOC) and p >= s + 3:
                    out.append({"kind": "truncate", "pos": p, "ctx": "comment"})
                continue
            if inside_comment and not interior:
                # boundary just before a comment token: outside comments
                pass
            if "truncate" in kinds and ((kind == cmakegen.QT and interior) or depth >= 1):
                out.append({"kind": "truncate", "pos": p, "ctx": ctx})
            for k in ("quote", "escape", "rparen", "lparen", "bcomment", "bcomment_eq"):
                if k in kinds:
                    out.append({"kind": k, "pos": p, "ctx": ctx})
            if "del_rparen" in kinds and kind == cmakegen.RP and p == s:
                out.append({"kind": "del_rparen", "pos": p, "ctx": ctx})
            if "bareword" in kinds and at_cmd_start:
                out.append({"kind": "bareword", "pos": p, "ctx": "between"})
    if "bareword" in kinds:
        out.append({"kind": "bareword", "pos": n, "ctx": "between"})
    if "escape_eof" in kinds:
        out.append({"kind": "escape_eof", "pos": n, "ctx": "between"})
    if "bareword_bytes" in kinds:
        # stray text written in bytes that are neither ASCII nor valid UTF-8 (Latin-1 letters)
        out.append({"kind": "bareword_bytes", "pos": n, "ctx": "between"})
        out.append({"kind": "bareword_bytes", "pos": 0, "ctx": "between"})
    if "many" in kinds:
        # the same fault a few hundred times over (exit statuses are 8 bits wide)
        for count in (255, 256, 257, 512):
            out.append({"kind": "many", "pos": n, "ctx": "between", "count": count, "what": ")" if count % 2 else "word"})
    for k in ("quote", "bcomment", "bcomment_eq", "rparen", "lparen"):
        if k in kinds:
            out.append({"kind": k, "pos": n, "ctx": "between"})
    return out


def apply_faults(text, faults):
    s = text
    for f in sorted(faults, key=lambda f: (-f["pos"], f["kind"])):
        p, k = f["pos"], f["kind"]
        if p > len(s):
            continue
        if k == "truncate":
            s = s[:p]
        elif k == "quote":
            s = s[:p] + '"' + s[p:]
        elif k == "escape":
            s = s[:p] + "\\" + "qZ7"[p % 3] + s[p:]
        elif k == "escape_eof":
            s = s + "\\"
        elif k == "rparen":
            s = s[:p] + ")" + s[p:]
        elif k == "lparen":
            s = s[:p] + "(" + s[p:]
        elif k == "del_rparen":
            if s[p:p + 1] == ")":
                s = s[:p] + s[p + 1:]
        elif k == "bareword":
            s = s[:p] + ("strayword\n" if (p == 0 or s[p - 1] == "\n") else "\nstrayword\n") + s[p:]
        elif k == "bcomment":
            s = s[:p] + "#[[ " + s[p:]
        elif k == "bcomment_eq":
            s = s[:p] + "#[=[ " + s[p:]
        elif k == "bareword_bytes":
            s = s[:p] + "\u00e9\u00e8\u00a0\n" + s[p:]
        elif k == "many":
            # each fault is followed by a healthy command so that the parser leaves error recovery in between
            unit = ")\nset(zqmany 1)\n" if f.get("what") == ")" else "set(zqmany \\a)\n"
            s = s + ("\n" if not s.endswith("\n") else "") + unit * f["count"]
    return s


def fault_sets(spec):
    plan = spec["plan"]
    if "explicit" in plan:
        return [list(fs) for fs in plan["explicit"]]
    singles = candidates([tuple(t) for t in spec["tokens"]], plan["kinds"])
    limit = plan.get("max_faults", 10 ** 9)
    specials = [f for f in singles if f["kind"] in ("many", "bareword_bytes")]     # never thinned out
    singles = [f for f in singles if f["kind"] not in ("many", "bareword_bytes")]
    if len(singles) > limit:
        stride = -(-len(singles) // limit)
        ph = plan.get("phase", 0) % stride
        singles = [f for i, f in enumerate(singles) if i % stride == ph]
    sets = [[f] for f in singles] + [[f] for f in specials]
    if plan.get("pairs") and len(singles) >= 2:
        rnd = random.Random(f"pairs:{plan['pair_seed']}")
        for _ in range(plan["pairs"]):
            a, b = rnd.sample(singles, 2)
            sets.append([a, b])
    return sets


_HEAD = re.compile(r"^(?P<o>([^\w\s])\2*)\n(?P<t>[^\n]+)\n(?P=o)$", re.M)


def evaluate(spec, ctx):
    viols = []
    setting = spec["setting"]
    mode = setting["mode"]
    base = core.new_base()
    name = "bad.cmake"
    try:
        files = {"home/.config/cminx": None, "tmp": None, "xdgdirs": None, "w/proj": None}
        for k, v in spec["siblings"].items():
            files["w/proj/" + k] = v
        core.materialise(base, files)
        src = os.path.join(base, "w/proj", name)
        page = os.path.join(base, "w/out", "bad.rst")
        target = "proj" if setting["in_tree"] else "proj/" + name
        argv = (["-o", "out"] if mode == "o" else []) + [target]
        if setting.get("healthy_input_after"):
            # another, healthy input follows on the same command line
            core.materialise(base, {"w/other/zz_healthy.cmake": "function(zqhealthy a)\nendfunction()\n"})
            argv = argv + ["other/zz_healthy.cmake"]
            ctx.probes["healthy_input_after_faulty"] += 1
        if setting.get("undoc"):
            import yaml
            keys = ["function", "macro", "cpp_class", "cpp_attr", "cpp_constructor", "cpp_member", "ct_add_test",
                    "add_test", "ct_add_section", "option"]
            core.materialise(base, {"w/s.yaml": yaml.safe_dump({"input": {"include_undocumented_" + k: v
                                                                          for k, v in zip(keys, setting["undoc"])}})})
            argv = ["-s", "s.yaml"] + argv
            ctx.probes["settings_profile_used"] += 1
            if "#[[[" not in spec["text"]:
                ctx.probes["module_without_any_doccomment"] += 1
        call = {"cwd": "w", "argv": argv, "listing_key": 0}
        ctx.probes["mode_" + mode] += 1
        if setting["in_tree"]:
            ctx.probes["in_tree"] += 1

        def run(text, old_timestamp=False):
            # non-ASCII stray text is stored as Latin-1 bytes: not decodable as ASCII or UTF-8
            with open(src, "w", encoding="latin-1" if not text.isascii() else "ascii") as f:
                f.write(text)
            if old_timestamp:
                st_ = os.stat(src)
                os.utime(src, (st_.st_atime - 86400 * 30, st_.st_mtime - 86400 * 30))
            res = core.run_call(base, call, snap=False)
            ctx.note_call(res)
            return res

        # --- fault-free configuration first
        r0 = run(spec["text"])
        good_page = None
        if r0.status != 0:
            viols.append(viol("fault-free-run-failed", f"the uncorrupted module was rejected: status {r0.status} exc {r0.exc}"))
            return viols
        if mode == "o":
            if not os.path.exists(page):
                viols.append(viol("fault-free-run-failed", "the uncorrupted module produced no page"))
                return viols
            with open(page) as f:
                good_page = f.read()
            if setting["stale"]:
                ctx.probes["stale_page_present"] += 1
        # --- the input cannot be read at all (EIO / EACCES when it is opened): same obligation
        if spec["plan"].get("read_error"):
            if mode == "o" and not setting["stale"] and os.path.exists(page):
                os.remove(page)
            with open(src, "w") as f:
                f.write(spec["text"])
            kind = spec["plan"]["read_error"]
            if kind.startswith("READ_"):
                fl = {"seam": "read", "match": "proj/" + name, "errno": "EIO",
                      "how": "at-start" if kind == "READ_EIO" else "after-prefix"}
            else:
                fl = {"seam": "open_r", "match": "proj/" + name, "errno": kind}
            res = core.run_call(base, dict(call, faults=[fl]), snap=False)
            ctx.note_call(res)
            ctx.probes["read_error_on_input"] += 1
            ctx.note_case(core.spec_digest([spec["text"], mode, "read_error", spec["plan"]["read_error"]]), True)
            if not res.fired:
                viols.append(viol("harness-fault-not-fired", "read fault on the input did not fire"))
            wrote = any(e[1] == "open" and e[2] == "w/out/bad.rst" and "w" in str(e[3]) for e in res.events)
            if res.status == 0 or wrote:
                viols.append(viol("read-error-swallowed", f"{spec['plan']['read_error']} when opening the input: status "
                                  f"{res.status}, page {'written' if wrote else 'not written'}"))
                return viols
        for fs in fault_sets(spec):
            bad = apply_faults(spec["text"], fs)
            if bad == spec["text"]:
                ctx.discarded["no-change"] += 1
                continue
            family = cmakescan.scan(bad)
            if family is None:
                ctx.discarded["still-valid"] += 1
                continue
            if family == "unjudged":
                ctx.discarded["unterminated-bracket-argument"] += 1
                continue
            ctx.probes["family_" + family] += 1
            if len(fs) > 1:
                ctx.probes["pair"] += 1
            if fs[0]["kind"] == "many" and fs[0]["count"] % 256 == 0:
                ctx.probes["fault_repeated_256_times"] += 1
            if fs[0]["kind"] == "bareword_bytes":
                ctx.probes["stray_bytes_not_utf8"] += 1
            ctx.probes["fault_between_commands" if fs[0].get("ctx") == "between" else "fault_inside_arguments"] += 1
            if fs[0]["kind"] in ("bcomment", "bcomment_eq", "quote") and fs[0].get("ctx") == "between":
                ctx.probes["rest_of_file_swallowed_candidate"] += 1
            # stale page from the clean run stays (history mode) or is removed
            if mode == "o":
                if setting["stale"]:
                    with open(page, "w") as f:
                        f.write(good_page)
                elif os.path.exists(page):
                    os.remove(page)
            res = run(bad, old_timestamp=bool(setting.get("skew")))
            if setting.get("skew") and setting["stale"] and mode == "o":
                ctx.probes["stale_page_newer_than_source"] += 1
            ctx.note_case(core.spec_digest([bad, mode, setting["in_tree"], setting["stale"]]), True)
            kinds = "+".join(sorted(f["kind"] for f in fs))
            narrow = dict(spec, plan={"explicit": [fs]})
            if res.status == 0:
                viols.append(dict(viol("invalid-input-accepted",
                                       f"{family} via {kinds} at {[f['pos'] for f in fs]}: exit 0; stderr {res.stderr[:160]!r}",
                                       family=family), narrow=narrow))
            wrote = any(e[1] == "open" and e[2] == "w/out/bad.rst" and "w" in str(e[3]) for e in res.events)
            if mode == "o":
                now = None
                if os.path.exists(page):
                    with open(page) as f:
                        now = f.read()
                expect = good_page if setting["stale"] else None
                # "writes no reST for that file": the stale page stays as it was, or is removed - never (re)written
                if wrote or now not in (expect, None):
                    viols.append(dict(viol("page-written-for-invalid-input",
                                           f"{family} via {kinds}: status {res.status}; page "
                                           f"{'opened for writing' if wrote else 'changed'}", family=family), narrow=narrow))
            else:
                for mm in _HEAD.finditer(res.stdout):
                    t = mm.group("t")
                    if len(t) == len(mm.group("o")) and ("bad" in t or "zqf0modname" in t):
                        viols.append(dict(viol("page-printed-for-invalid-input",
                                               f"{family} via {kinds}: status {res.status}; stdout holds a page titled {t!r}",
                                               family=family), narrow=narrow))
                        break
            if viols:
                break
    finally:
        core.drop_base(base)
    return viols


MANIFEST = {
    "engine": "E1 simworld",
    "design_ref": "DESIGN.md section 3 (C06), section 2",
    "technique": "fault injection on stored input under the simulated file system: fault kind x position enumeration from a token "
                 "map, independent cmake-language validity scanner, exit status + write log of the output tree as oracle",
    "level_text": "Fault enumeration: for each seeded valid module, every eligible position (thorough) or a seeded stride of them "
                  "(quick) of each fault kind, singly and in seeded pairs, is applied to the stored file; cases the independent "
                  "scanner does not classify as one of the five families are discarded and counted.  For every remaining case the "
                  "real CLI must exit non-zero, must not open the page for writing (stale page byte-identical, or absent), and "
                  "must not print a page for the file; the fault-free configuration must succeed.  An injected EIO/EACCES when the input "
                  "file is opened, or while it is read (read() failing at once or after a prefix), carries the same obligation.  Worlds vary the "
                  "include_undocumented_* profile (modules without any doccomment included) and keep a stale page whose timestamp is "
                  "newer than the faulty source (clock skew / restored file).",
    "level_note": "trusted: the 100-line scanner written from cmake-language(7) (validated on ~3000 generated and all installed "
                  "CMake modules: none flagged), the token map of the generator; small modules (<= 3 commands in quick)",
}
