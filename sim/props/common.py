"""Pieces shared by the E1 directory-mode checks (C13, C14, C15, C18)."""
import os
import posixpath
import shutil

import yaml

from .. import core, refs

E1_COMPONENTS = {
    "real": ["cminx.main and everything below it (argparse, confuse+PyYAML, pathspec, ANTLR runtime + generated "
             "lexer/parser, aggregator, documentation types, RSTWriter) imported from the working tree",
             "kernel tmpfs as byte store under the interposers"],
    "simulator_owned": ["world content and its absolute location", "working directory", "HOME/XDG_*/CMINXDIR/TMPDIR",
                        "argv spelling", "order of every os.scandir/os.listdir result (seeded listing key or explicit "
                        "permutation)", "injected I/O faults at open/write/close/mkdir", "order of calls in a history"],
    "stub": [],
    "threads_tasks_network_clock": "none exist in CMinx; nothing to schedule beyond the listing order and call order",
}

E1_ASSUMPTIONS = [
    "third-party code (confuse, pathspec, PyYAML, ANTLR runtime) is the version installed in /venv and runs real",
    "faults are injected at the Python call boundary (open/write/close/mkdir/scandir), not below it",
    "worlds are small trees (<= ~12 directories, <= ~20 files) of small generated modules; sampling, not proof",
    "no symlinked directories (links to CMake files: C13, C18 only), no non-ASCII file content (FileStream decodes ASCII), no two files mapping to the same .rst",
]


def yaml_dump(d):
    return yaml.safe_dump(d, default_flow_style=False, sort_keys=True)


def build_config(patterns=None, input_opts=None, rst_opts=None, output_opts=None):
    d = {}
    inp = dict(input_opts or {})
    if patterns:
        inp["exclude_filters"] = list(patterns)
    if inp:
        d["input"] = inp
    if rst_opts:
        d["rst"] = dict(rst_opts)
    if output_opts:
        d["output"] = dict(output_opts)
    return yaml_dump(d) if d else None


def remove_outputs(base, rels):
    for rel in rels:
        p = os.path.join(base, rel)
        if os.path.isdir(p) and not os.path.islink(p):
            shutil.rmtree(p, ignore_errors=True)
        elif os.path.lexists(p):
            os.remove(p)


def created_under(res, out_rel):
    """Files (not directories) created or changed below out_rel, relative to it."""
    pre = out_rel.rstrip("/") + "/"
    out = set()
    for rel in list(res.created) + list(res.changed):
        if rel.startswith(pre) and res.after.get(rel) != "d":
            out.add(rel[len(pre):])
    return out


def effects_outside(res, allowed_prefixes):
    """Created/changed/deleted paths that are not below any allowed prefix."""
    bad = []
    for kind, lst in (("created", res.created), ("changed", res.changed), ("deleted", res.deleted)):
        for rel in lst:
            if not any(rel == a.rstrip("/") or rel.startswith(a.rstrip("/") + "/") for a in allowed_prefixes):
                bad.append([kind, rel])
    return bad


def listing_of(res, reld):
    """Last listing order recorded for directory reld (relative to base)."""
    got = None
    for d, order in res.listings:
        if d == reld:
            got = order
    return got


def viol(clause, detail, **sig):
    s = {"clause": clause}
    s.update(sig)
    return {"clause": clause, "detail": detail, "sig": s}
