"""C13 - directory mode writes exactly one page per processed CMake file (and
one index.rst per processed directory, nothing else); each page equals the
single-file rendering apart from title and module name.

Also hosts the world generator and runner shared with C14 and C18.

Replay spec (shared with C14): {"files", "proj", "out", "out_kind", "patterns", "recursive", "auto_exclude", "prefix", "rst",
 "single": bool, "variants": [{"cwd", "input", "output", "listing_key", "listing_explicit", "prefix_src",
                               "faults": [{"seam", "errno", "nth"|"path", "how"?, "persist"?}]}]}
Variant 0 is the fault-free reference run; later variants may carry faults.
"""
import os
import posixpath

from hypothesis import strategies as st

from .. import core, gen, refs
from .common import (E1_ASSUMPTIONS, E1_COMPONENTS, build_config, created_under, remove_outputs, viol)

ID = "C13"
LEVEL = "exploration"
TIERS = {
    "quick": {"shards": 128, "examples": 20, "det_shards": 2},
    "thorough": {"shards": 2048, "examples": 50, "det_shards": 8},
}
RULE = ("case = (world, variant): a generated directory tree with settings (recursion, auto-exclusion, prefix and its "
        "source, 0-3 exclude patterns, output placement) run under one listing schedule and, in fault shards, one I/O "
        "fault plan (one-shot or persistent ENOSPC/EACCES/EIO at open/write/close/mkdir, read errors, a failing listing "
        "in the auto-exclusion probe, a mkdir race, a kill at an arbitrary seam followed by a re-run); each world is also "
        "re-run over its own output directory after every page was torn or replaced by a longer old text stamped in the "
        "future; non-trivial iff the tree has >= 2 directories or a non-CMake file or a mixed-case extension, and in "
        "fault shards iff at least one fault fired; distinct by sha256(tree, settings, schedule, faults)")
COMPONENTS = E1_COMPONENTS
ASSUMPTIONS = E1_ASSUMPTIONS + [
    "output directories nested in the input tree are generated only as a not-yet-existing direct child of the input "
    "directory (deeper ones make 'the subdirectories of the input' self-referential)",
    "worlds where 'directly contains no .cmake file' differs before/after pattern exclusion are judged by the closure "
    "and schedule-independence clauses only, not by set equality with the reference walk"]
PROBES = ["tree_edited_between_runs", "symlinked_cmake_file", "depth_ge_3", "empty_dir", "dir_without_cmake", "mixed_case_ext", "nonrecursive_with_subdirs",
          "auto_exclude_off", "out_nested", "out_abs", "out_rel", "dotted_or_dashed_name", "patterns_present",
          "fault_fired_open_w", "fault_fired_write", "fault_fired_close_w", "fault_fired_mkdir", "fault_fired_open_r",
          "fault_run_failed", "fault_run_survived", "single_file_compared", "crash_then_rerun",
          "crash_left_torn_or_partial_page", "rerun_over_stale_tree",
          "persistent_fault", "probe_scandir_fault"]

SAFE_LOC = ["w1", "site", "work", "ci", "checkout"]
PREFIXES = ["pfx", "My.Pkg", "top-level", "p"]
SEPS = [".", ".", "-", "::", "/", "_"]
HEADERS = [None, None, ["=", "-", "~", "^", "+", "*"], ["*"], "^ ~ = - _"]


def swarm(rng, tier):
    return {
        "faults": rng.random() < 0.3,
        "tree": rng.choice(["wide", "deep", "small", "deep"]),
        "variants": 3 if tier == "quick" else 5,
        "odd_names": rng.random() < 0.5,
        "rst_opts": rng.random() < 0.4,
        "max_patterns": rng.choice([0, 1, 3]),
        "single": True,
        "duplicates": rng.random() < 0.3,
        "symlinks": rng.random() < 0.35,
    }


TREE_KW = {"wide": dict(max_depth=2, max_files=3, max_subdirs=3, max_cmds=3, budget=7),
           "deep": dict(max_depth=4, max_files=2, max_subdirs=2, max_cmds=2, budget=8),
           "small": dict(max_depth=1, max_files=3, max_subdirs=2, max_cmds=4, budget=3)}

FAULT_KINDS = [("open_w", "ENOSPC"), ("open_w", "EACCES"), ("write", "ENOSPC"), ("write", "EIO"),
               ("close_w", "ENOSPC"), ("close_w", "EIO"), ("mkdir", "EACCES"), ("mkdir", "ENOSPC"),
               ("mkdir", "RACE"), ("mkdir", "RACE"), ("open_r", "EIO"), ("open_r", "EACCES"),
               ("open_w", "CRASH"), ("write", "CRASH"), ("close_w", "CRASH"), ("mkdir", "CRASH")]


def draw_faults(draw, probe_dirs=()):
    n = draw(st.integers(1, 2))
    out = []
    for _ in range(n):
        seam, err = draw(st.sampled_from(FAULT_KINDS + ([("scandir", "EIO"), ("scandir", "EMFILE")] if probe_dirs else [])))
        if seam == "scandir":
            # the auto-exclusion probe of one subdirectory fails (its first listing); os.walk's own listings are not
            # touched: what an unlistable directory means for the walk itself is not stated by any property
            out.append({"seam": "scandir", "errno": err, "path": draw(st.sampled_from(list(probe_dirs)))})
            continue
        f = {"seam": seam, "errno": err, "nth": draw(st.integers(1, 6))}
        if seam == "write":
            f["how"] = draw(st.sampled_from(["before", "torn"]))
        if seam in ("open_w", "write") and err in ("ENOSPC", "EIO") and draw(st.booleans()):
            f["persist"] = True         # the disk stays full / broken: every later attempt fails as well
        out.append(f)
    return out


def world_strategy(cfg, out_kinds=("sibling", "sibling", "abs", "nested", "rel_up"), safe_loc=True,
                   tree_kw_extra=None):
    tree_kw = dict(TREE_KW[cfg["tree"]])
    tree_kw["odd_names"] = cfg.get("odd_names", False)
    tree_kw["duplicates"] = cfg.get("duplicates", False)
    if cfg.get("backslash_names"):
        tree_kw["extra_dirnames"] = ["win\\util", "a\\b"]
    tree_kw.update(tree_kw_extra or {})

    @st.composite
    def world(draw):
        auto = draw(st.sampled_from([True, True, False]))
        site = gen.draw_site(draw, loc_pool=SAFE_LOC if safe_loc else gen.LOC_NAMES, tree_kw=tree_kw, auto_exclude=auto)
        pats = gen.draw_patterns(draw, site, max_patterns=cfg.get("max_patterns", 0), allow_abs=True) \
            if cfg.get("max_patterns", 0) else []
        recursive = draw(st.sampled_from([True, True, True, False]))
        files = gen.base_files(site)
        files["cfg"] = None
        out_kind = draw(st.sampled_from(out_kinds))
        if out_kind == "nested":
            out = posixpath.join(site.proj, "zz_out")
            if draw(st.booleans()):
                # a sibling whose name merely starts like the output directory's
                files[posixpath.join(site.proj, "zz_out-notes", "n9.cmake")] = "set(zqsibling 1)\n"
                site.tree["zz_out-notes"] = None
                site.tree["zz_out-notes/n9.cmake"] = "set(zqsibling 1)\n"
        else:
            out = posixpath.join(site.rel, "out") if site.rel else "out"
        if cfg.get("symlinks") and draw(st.booleans()):
            # CMake files that are symbolic links to a module kept outside the tree (follow_symlinks only speaks about
            # linked *directories*): a directory whose only CMake file is such a link, possibly below a directory
            # without CMake files, and / or a link next to ordinary files
            shared = "#[[[\n# Shared helper.\n#]]\nfunction(zq_shared a b)\nendfunction()\n"
            files["elsewhere/shared_src.cmake"] = shared
            for d in draw(st.lists(st.sampled_from(["lnk", "lnk/deeper", "", "zl.d"]), unique=True, min_size=1, max_size=2)):
                parts = d.split("/") if d else []
                for i in range(1, len(parts) + 1):
                    anc = "/".join(parts[:i])
                    if anc not in site.tree:
                        site.tree[anc] = None
                        files[posixpath.join(site.proj, anc)] = None
                rel = posixpath.join(d, "zl.cmake")
                if rel not in site.tree:
                    site.tree[rel] = shared
                    files[posixpath.join(site.proj, rel)] = {"symlink": "{BASE}/elsewhere/shared_src.cmake"}
        prefix = draw(st.sampled_from([None, None] + PREFIXES + (["acme\\cmake"] if cfg.get("backslash_names") else [])))
        rst = {}
        if cfg.get("rst_opts"):
            sep = draw(st.sampled_from(SEPS))
            if sep != ".":
                rst["module_path_separator"] = sep
            hd = draw(st.sampled_from(HEADERS))
            if hd is not None:
                rst["headers"] = hd
            if draw(st.booleans()):
                rst["file_extensions_in_titles"] = draw(st.booleans())
            if draw(st.booleans()):
                rst["file_extensions_in_modules"] = draw(st.booleans())
        variants = []
        dirs = sorted(refs.tree_dirs(site.tree))
        cwds = sorted({"", site.rel, "elsewhere"} | {posixpath.join(site.proj, d) for d in dirs[:4]})
        for vi in range(cfg["variants"]):
            key, explicit = gen.listing_schedule(draw, dirs[:3], site.tree, prefix=site.proj)
            cwd = draw(st.sampled_from(cwds))
            v = {"cwd": cwd, "input": gen.spell(draw, cwd, site.proj),
                 "output": "{BASE}/" + out if out_kind == "abs" else gen.spell(draw, cwd, out, is_dir=False,
                                                                               allow_abs=False),
                 "listing_key": key, "listing_explicit": explicit,
                 "prefix_src": draw(st.integers(0, 2)), "faults": []}
            if cfg.get("faults") and vi > 0:
                probe = [posixpath.join(site.proj, d) for d in dirs if d and "/" not in d] if auto else []
                v["faults"] = draw_faults(draw, probe)
            variants.append(v)
        return {"files": files, "proj": site.proj, "out": out, "out_kind": out_kind, "patterns": pats,
                "recursive": recursive, "auto_exclude": auto, "prefix": prefix, "rst": rst, "variants": variants,
                "single": bool(cfg.get("single"))}
    return world()


def strategy(cfg):
    return world_strategy(cfg)


def tree_of(spec):
    pre = spec["proj"] + "/"
    return {rel[len(pre):]: c for rel, c in spec["files"].items() if rel.startswith(pre)}


def variant_setup(spec, var, single_file=None, out_override=None):
    """-> (overlay files, argv).  Settings that only files can carry go into the -s file; the prefix goes to the
    source the variant names."""
    sfile_in, user_in, user_rst = {}, {}, {}
    argv = []
    if not spec["auto_exclude"]:
        sfile_in["auto_exclude_directories_without_cmake"] = False
    rst = dict(spec.get("rst") or {})
    if spec["prefix"] is not None:
        if var["prefix_src"] == 0:
            argv += ["-p", spec["prefix"]]
        elif var["prefix_src"] == 1:
            rst["prefix"] = spec["prefix"]
        else:
            user_rst["prefix"] = spec["prefix"]
    if spec["recursive"] and single_file is None:
        argv.append("-r")
    s_text = build_config(spec["patterns"] if single_file is None else None, sfile_in, rst)
    u_text = build_config(None, user_in, user_rst)
    overlay = {}
    if s_text:
        overlay["cfg/s.yaml"] = s_text
        argv += ["-s", "{BASE}/cfg/s.yaml"]
    if u_text:
        overlay["home/.config/cminx/config.yaml"] = u_text
    argv += ["-o", out_override or var["output"], single_file or var["input"]]
    return overlay, argv


def effective_prefix(spec):
    return spec["prefix"] if spec["prefix"] is not None else posixpath.basename(spec["proj"])


def normalise_page(text):
    """Blank out the title block and the module directive's argument."""
    pg = refs.parse_page(text)
    lines = list(pg.lines)
    if pg.title is not None and pg.title_at + 2 < len(lines):
        lines[pg.title_at] = "<over>"
        lines[pg.title_at + 1] = "<title>"
        lines[pg.title_at + 2] = "<under>"
    for n, name, _arg in pg.directives:
        if name == "module":
            lines[n] = ".. module::"
            break
    return "\n".join(lines)


class DirRun:
    """Everything the C13/C14/C18 oracles need about one fault-free reference run."""
    pass


def setup_world(spec):
    base = core.new_base()
    core.materialise(base, spec["files"])
    return base


def run_variant(base, spec, var, ctx, with_faults=True):
    overlay, argv = variant_setup(spec, var)
    remove_outputs(base, ["cfg/s.yaml", "home/.config/cminx/config.yaml", spec["out"], "single_out"])
    core.materialise(base, {k: v.replace("{BASE}", base) for k, v in overlay.items()})
    call = {"cwd": var["cwd"], "argv": argv, "listing_key": var["listing_key"],
            "listing_explicit": var["listing_explicit"],
            "faults": var.get("faults", []) if with_faults else []}
    res = core.run_call(base, call)
    ctx.note_call(res)
    return res


def reference(spec, base):
    tree = tree_of(spec)
    pats = [p.replace("{BASE}", base) for p in spec["patterns"]]
    ig = refs.Ignore(pats, base + "/" + spec["proj"])
    walk = refs.ref_walk(tree, spec["recursive"], spec["auto_exclude"], ig)
    return tree, ig, walk


def tree_probes(ctx, spec, tree, walk):
    ch = refs.children(tree)
    if any(d.count("/") >= 2 for d in ch):
        ctx.probes["depth_ge_3"] += 1
    if any(not s and not f for d, (s, f) in ch.items() if d):
        ctx.probes["empty_dir"] += 1
    if any(f and not any(refs.is_cmake(x) for x in f) for d, (s, f) in ch.items()):
        ctx.probes["dir_without_cmake"] += 1
    if any(refs.is_cmake(f) and not f.endswith(".cmake") for f in refs.tree_files(tree)):
        ctx.probes["mixed_case_ext"] += 1
    if not spec["recursive"] and ch[""][0]:
        ctx.probes["nonrecursive_with_subdirs"] += 1
    if not spec["auto_exclude"]:
        ctx.probes["auto_exclude_off"] += 1
    if any(("." in posixpath.basename(d) or "-" in posixpath.basename(d)) for d in ch if d):
        ctx.probes["dotted_or_dashed_name"] += 1
    if spec["patterns"]:
        ctx.probes["patterns_present"] += 1
    if any(isinstance(c, dict) for c in tree.values()):
        ctx.probes["symlinked_cmake_file"] += 1
    ctx.probes["out_" + {"sibling": "rel", "rel_up": "rel", "abs": "abs", "nested": "nested"}[spec["out_kind"]]] += 1


def nontrivial_tree(tree):
    ch = refs.children(tree)
    return len(ch) >= 2 or any(not refs.is_cmake(f) or not f.endswith(".cmake") for f in refs.tree_files(tree))


def evaluate(spec, ctx):
    viols = []
    base = setup_world(spec)
    try:
        tree, ig, walk = reference(spec, base)
        expected = refs.expected_outputs(walk)
        tree_probes(ctx, spec, tree, walk)
        out = spec["out"]
        ref_pages = None
        for vi, var in enumerate(spec["variants"]):
            where = f"variant {vi}"
            faulty = bool(var.get("faults"))
            res = run_variant(base, spec, var, ctx)
            for f in var.get("faults", []):
                ctx.faults_planned[f["seam"] + ":" + f["errno"]] += 1
            for f in res.fired:
                if f["seam"] != "scandir":
                    ctx.probes["fault_fired_" + f["seam"]] += 1
                if f.get("persist"):
                    ctx.probes["persistent_fault"] += 1
                if f["seam"] == "scandir":
                    ctx.probes["probe_scandir_fault"] += 1
            got = created_under(res, out)
            pages = core.read_tree(base, out)
            ctx.note_case(core.spec_digest([tree, spec["patterns"], spec["recursive"], spec["auto_exclude"],
                                            spec["prefix"], spec["rst"], spec["out_kind"], var["listing_key"],
                                            var["listing_explicit"], var.get("faults")]),
                          (nontrivial_tree(tree) and not faulty) or (faulty and bool(res.fired)))
            err_faults = [f for f in res.fired if f["errno"] != "RACE"]
            if not err_faults:
                # fault-free (or only a legal mkdir race): must succeed with exactly the expected tree
                if res.status != 0:
                    viols.append(viol("run-failed", f"{where}: status {res.status} exc {res.exc} fired {res.fired}",
                                      under="race" if res.fired else "no-fault"))
                    break
                if not walk.ambiguous:
                    extra, missing = sorted(got - expected), sorted(expected - got)
                    if extra:
                        viols.append(viol("extra-output", f"{where}: written but not expected: {extra[:6]}",
                                          kind=_extra_kind(extra, tree)))
                    if missing:
                        viols.append(viol("missing-output", f"{where}: expected but not written: {missing[:6]}",
                                          cause="pattern-matches-ancestor" if ig.ancestor_component_hits() else "other"))
                if ref_pages is None:
                    ref_pages = pages
                elif pages != ref_pages:
                    diff = sorted(k for k in set(pages) | set(ref_pages) if pages.get(k) != ref_pages.get(k))
                    viols.append(viol("output-depends-on-schedule", f"{where}: differs from variant 0 in {diff[:6]}"))
            elif any(f["errno"] == "CRASH" for f in res.fired) and spec["out_kind"] == "nested":
                # re-running over a partial output directory that sits inside the input tree would document the
                # output itself (the self-referential placement the assumptions exclude): not judged
                ctx.discarded["crash-rerun-with-nested-output"] += 1
            elif any(f["errno"] == "CRASH" for f in res.fired):
                # the process was killed mid-run; whatever reached the disk stays (possibly a torn page).
                # Restart: the same command, no faults, on top of the partial tree, must yield the complete tree.
                ctx.probes["crash_then_rerun"] += 1
                if any(k in pages and ref_pages is not None and pages[k] != ref_pages.get(k) for k in pages):
                    ctx.probes["crash_left_torn_or_partial_page"] += 1
                overlay, argv = variant_setup(spec, var)
                r2 = core.run_call(base, {"cwd": var["cwd"], "argv": argv, "listing_key": var["listing_key"],
                                          "listing_explicit": var["listing_explicit"]})
                ctx.note_call(r2)
                pages2 = core.read_tree(base, out)
                if r2.status != 0:
                    viols.append(viol("rerun-after-crash-failed", f"{where}: status {r2.status} exc {r2.exc}"))
                elif ref_pages is not None:
                    # every page of the fault-free tree must be there, complete; leftovers of the killed run that the
                    # re-run did not create itself (e.g. a temporary file of an atomic writer) are not its business
                    diff = sorted(k for k in ref_pages if pages2.get(k) != ref_pages[k])
                    new_extra = sorted(k for k in pages2 if k not in ref_pages and k not in pages)
                    if diff or new_extra:
                        viols.append(viol("rerun-after-crash-incomplete",
                                          f"{where}: killed at {res.fired}; after re-running, {(diff + new_extra)[:5]} differ from "
                                          f"the fault-free tree"))
            else:
                # an I/O error was injected while output was in flight
                if res.status == 0:
                    ctx.probes["fault_run_survived"] += 1
                    if ref_pages is not None:
                        for k, v in ref_pages.items():
                            if pages.get(k) != v:
                                viols.append(viol("fault-swallowed",
                                                  f"{where}: exit 0 after {res.fired} but {k} is "
                                                  f"{'missing' if k not in pages else 'different/short'}",
                                                  seam=err_faults[0]["seam"]))
                                break
                else:
                    ctx.probes["fault_run_failed"] += 1
                if not walk.ambiguous and res.status == 0:
                    # a run that reports failure may leave a partial tree (incl. temporaries); one that claims success may not
                    extra = sorted(got - expected)
                    if extra:
                        viols.append(viol("extra-output", f"{where}: exit 0 after {res.fired} with unexpected files {extra[:6]}",
                                          kind="under-faults"))
            if viols:
                break
        # --- an output directory left behind by an earlier run: every page torn or carrying a longer old text, all
        #     with timestamps in the future (clock skew); a plain re-run must restore exactly the fault-free tree
        if not viols and ref_pages and spec["out_kind"] != "nested":
            var0 = spec["variants"][0]
            import time as _time
            future = _time.time() + 86400 * 365
            for k, text in ref_pages.items():
                pth = os.path.join(base, spec["out"], k)
                os.makedirs(os.path.dirname(pth), exist_ok=True)
                sel = (len(k) + len(text)) % 3
                with open(pth, "w", newline="") as f:
                    f.write(text[: len(text) // 2] if sel == 0 else
                            (text + "\nSTALE TAIL OF AN OLDER, LONGER PAGE\n" * 3 if sel == 1 else text.replace("\n", "\r\n")))
                os.utime(pth, (future, future))
            overlay, argv = variant_setup(spec, var0)
            core.materialise(base, {k: v.replace("{BASE}", base) for k, v in overlay.items()})
            r3 = core.run_call(base, {"cwd": var0["cwd"], "argv": argv, "listing_key": var0["listing_key"],
                                      "listing_explicit": var0["listing_explicit"]})
            ctx.note_call(r3)
            ctx.probes["rerun_over_stale_tree"] += 1
            pages3 = core.read_tree(base, spec["out"])
            if r3.status != 0:
                viols.append(viol("rerun-over-stale-tree-failed", f"status {r3.status} exc {r3.exc}"))
            else:
                diff = sorted(k for k in ref_pages if pages3.get(k) != ref_pages[k])
                if diff:
                    how = "kept its stale content" if pages3.get(diff[0]) not in (None, ref_pages[diff[0]]) else "missing"
                    viols.append(viol("stale-output-survives-rerun",
                                      f"re-run over an output directory holding torn / longer / newer-stamped pages: "
                                      f"{diff[:5]} differ from the fault-free tree ({how})"))
        # --- the tree is edited between two runs of the same process over the same path: one directory gains its first
        #     CMake file, another loses its last one.  The second run must match the reference walk of the edited tree.
        if not viols and ref_pages is not None and spec["out_kind"] != "nested" and not walk.ambiguous:
            ch0 = refs.children(tree)
            gain = [d for d in sorted(ch0) if d and not any(refs.is_cmake(f) for f in ch0[d][1])]
            lose = [d for d in sorted(ch0) if d and sum(1 for f in ch0[d][1] if refs.is_cmake(f)) == 1
                    and not isinstance(tree.get(posixpath.join(d, [f for f in ch0[d][1] if refs.is_cmake(f)][0])), dict)]
            if gain or lose:
                files2 = dict(spec["files"])
                added = removed = None
                if gain:
                    added = posixpath.join(spec["proj"], gain[0], "zadded.cmake")
                    files2[added] = "#[[[\n# Added between two runs.\n#]]\nfunction(zq_added a)\nendfunction()\n"
                    core.materialise(base, {added: files2[added]})
                if lose:
                    victim = [f for f in ch0[lose[-1]][1] if refs.is_cmake(f)][0]
                    removed = posixpath.join(spec["proj"], lose[-1], victim)
                    if removed != added:
                        del files2[removed]
                        os.remove(os.path.join(base, removed))
                    else:
                        removed = None
                spec2 = dict(spec, files=files2)
                try:
                    tree2, ig2, walk2 = reference(spec2, base)
                    if not walk2.ambiguous:
                        var0 = spec["variants"][0]
                        r5 = run_variant(base, spec2, dict(var0, faults=[]), ctx, with_faults=False)
                        ctx.probes["tree_edited_between_runs"] += 1
                        got5 = created_under(r5, out)
                        exp5 = refs.expected_outputs(walk2)
                        if r5.status != 0:
                            viols.append(viol("run-failed", f"run after editing the tree: status {r5.status} exc {r5.exc}"))
                        elif got5 != exp5:
                            viols.append(viol("stale-view-of-edited-tree",
                                              f"after adding {added} and removing {removed} the same process wrote "
                                              f"extra {sorted(got5 - exp5)[:5]} missing {sorted(exp5 - got5)[:5]}"))
                finally:
                    # restore the world for the steps below
                    if added:
                        os.remove(os.path.join(base, added))
                    if removed:
                        core.materialise(base, {removed: spec["files"][removed]})
        # --- page content == single-file rendering (apart from title / module name)
        if not viols and spec.get("single") and ref_pages is not None:
            var0 = spec["variants"][0]
            for f in walk.files:
                page_rel = refs.stem(f) + ".rst"
                if page_rel not in ref_pages:
                    continue
                v1 = dict(var0, cwd="", faults=[])
                overlay, argv = variant_setup(spec, v1, single_file="{BASE}/" + posixpath.join(spec["proj"], f),
                                              out_override="{BASE}/single_out")
                remove_outputs(base, ["single_out", "cfg/s.yaml", "home/.config/cminx/config.yaml"])
                core.materialise(base, {k: v.replace("{BASE}", base) for k, v in overlay.items()})
                r1 = core.run_call(base, {"cwd": "", "argv": argv, "listing_key": 0})
                ctx.note_call(r1)
                ctx.probes["single_file_compared"] += 1
                single = core.read_tree(base, "single_out")
                name = posixpath.basename(page_rel)
                if r1.status != 0 or name not in single:
                    viols.append(viol("single-file-run-failed", f"{f}: status {r1.status} exc {r1.exc} files {sorted(single)}"))
                    break
                if normalise_page(single[name]) != normalise_page(ref_pages[page_rel]):
                    viols.append(viol("page-differs-from-single-file-run", f"{f}: directory-mode page differs from the "
                                      f"single-file page beyond title/module name"))
                    break
    finally:
        core.drop_base(base)
    return viols


def _extra_kind(extra, tree):
    ch = refs.children(tree)
    for e in extra:
        d, b = posixpath.dirname(e), posixpath.basename(e)
        if b == ".rst" and "cmake" in ch.get(d, ([], []))[1]:
            return "page-for-file-named-cmake"
    if all(posixpath.basename(e) == "index.rst" for e in extra):
        return "index-only"
    return "other"


MANIFEST = {
    "engine": "E1 simworld",
    "design_ref": "DESIGN.md section 3 (C13), section 2",
    "technique": "deterministic simulation: seeded directory worlds x listing schedules x I/O fault plans (ENOSPC/EACCES/EIO at "
                 "open/write/close/mkdir, mkdir race, crash-and-rerun) against a reference walk and CMinx single-file runs as differential oracle",
    "level_text": "Seeded exploration with fault injection: set equality of the files written under the output directory with an "
                  "independent reference walk (so 'nothing else' is enforced), schedule independence across listing orders, page "
                  "content against a single-file run of the same CLI, and under injected I/O errors: never exit 0 with a missing "
                  "or short page, never a file outside the expected set; a mkdir race must be survived with the full tree; a simulated "
                  "kill (crash) at an arbitrary open/write/close/mkdir followed by a plain re-run must yield exactly the fault-free "
                  "tree (no torn page survives a restart); persistent faults (the disk stays full) must not be retried into silence; a "
                  "re-run over an output directory full of torn, longer or newer-stamped stale pages must restore the exact tree; after the "
                  "tree is edited between two runs of one process (a directory gains its first CMake file, another loses its last) the "
                  "second run must match the reference walk of the edited tree.  Worlds include CMake files that are symbolic links and "
                  "non-ASCII names in NFC and NFD spelling.",
    "level_note": "trusted: reference walk (30 lines) and gitignore matcher, tmpfs, libraries as installed; ambiguous worlds "
                  "(directory emptied by exclusion under auto-exclusion) are not judged by set equality",
}
