"""C12 - title and module name derive from prefix and relative path, or @module.

Simulation part: the independence claim ("derived only from the prefix and the
file's path relative to the input directory") is quantified over things the
simulator owns - absolute location, working directory, spelling of the input
path, source of the prefix.  Each world runs under several placements and all
pages must agree on title block and module directive.

Replay spec: {"files", "proj_name", "tree": {rel: text|null}, "single": rel|null, "prefix": str|null, "rst": {...},
 "placements": [{"loc", "cwd", "input", "prefix_src": 0 cli|1 -s file|2 user config, "listing_key", "decoy_first", "stale_out"}]}
"""
import os
import posixpath

from hypothesis import strategies as st

from .. import cmakegen, core, gen, refs
from . import c13
from .common import E1_ASSUMPTIONS, E1_COMPONENTS, build_config, remove_outputs, viol

ID = "C12"
LEVEL = "exploration"
TIERS = {
    "quick": {"shards": 128, "examples": 20, "det_shards": 2},
    "thorough": {"shards": 2048, "examples": 60, "det_shards": 8},
}
RULE = ("case = (world, placement set): a tree (or a lone file) whose modules carry @module doccomments with/without a name "
        "and body, with settings (prefix absent / from -p / -s file / user config, separator, both extension options, header "
        "characters), run under 3-5 placements (absolute location, cwd, spelling of the input path incl. '.', './x', 'x/', "
        "'../y/x', absolute); non-trivial iff >= 2 placements differ in cwd or location and >= 1 page is produced; distinct by "
        "sha256(tree, settings, placements)")
COMPONENTS = E1_COMPONENTS
ASSUMPTIONS = E1_ASSUMPTIONS + [
    "in path-derived names the '/' of the relative path may be kept or replaced by the configured separator (the statement "
    "does not choose); both are accepted",
    "the @module clauses are a pure function of the file text; they are checked because the pages exist, simulation adds "
    "nothing to them"]
PROBES = ["python_api_entry", "module_head_with_tab_or_crlf", "path_spelled_with_separator_twin", "stale_pages_in_output_dir", "module_named_like_generated", "subdir_named_like_prefix", "other_input_first", "single_file_input", "dir_input", "spelled_dot", "spelled_dotdot", "spelled_abs", "spelled_trailing_slash",
          "prefix_default", "prefix_cli", "prefix_sfile", "prefix_user", "sep_not_dot", "ext_in_titles", "ext_in_modules",
          "custom_headers", "module_named", "module_unnamed", "module_body", "depth_ge_2", "moved_tree"]

LOCS = ["w1", "site/deep", "ci/job-7/src", "work"]


def swarm(rng, tier):
    return {
        "tree": rng.choice(["wide", "deep", "small"]),
        "placements": 3 if tier == "quick" else 5,
        "single": rng.random() < 0.35,
        "rst_opts": rng.random() < 0.6,
    }


def strategy(cfg):
    tree_kw = dict(c13.TREE_KW[cfg["tree"]])
    tree_kw["max_cmds"] = 2

    @st.composite
    def world(draw):
        proj_name = draw(st.sampled_from(gen.PROJ_NAMES[:4]))
        tree = gen.draw_tree(draw, extra_dirnames=["pfx", proj_name, "p"], **tree_kw)
        gen.fix_for_auto_exclude(tree)
        cm = sorted(f for f in refs.tree_files(tree) if refs.is_cmake(f))
        single = None
        if cfg["single"] and cm:
            single = draw(st.sampled_from(cm))
        prefix = draw(st.sampled_from([None, None, "pfx", "My.Pkg", "top-level", "libs/core", "org/pkg/"]))
        rst = {}
        if cfg["rst_opts"]:
            sep = draw(st.sampled_from(c13.SEPS))
            if sep != ".":
                rst["module_path_separator"] = sep
            hd = draw(st.sampled_from(c13.HEADERS))
            if hd is not None:
                rst["headers"] = hd
            if draw(st.booleans()):
                rst["file_extensions_in_titles"] = draw(st.booleans())
            if draw(st.booleans()):
                rst["file_extensions_in_modules"] = draw(st.booleans())
        if draw(st.integers(0, 3)) == 0:
            # a file in a subdirectory and a sibling file whose NAME spells that path with the separator:
            # 'x/y.cmake' next to 'x<sep>y.cmake' - two different files that must not end up with one title
            sep_ = rst.get("module_path_separator", ".")
            nested = sorted(r for r in tree if tree[r] is not None and r.count("/") == 1 and r.endswith(".cmake"))
            if nested and "/" not in sep_:
                r = draw(st.sampled_from(nested))
                twin = r.replace("/", sep_)
                pdir = posixpath.dirname(twin)
                taken = {refs.stem(posixpath.basename(k)) for k in tree
                         if tree[k] is not None and posixpath.dirname(k) == pdir and "." in posixpath.basename(k)}
                names_here = {posixpath.basename(k) for k in tree if posixpath.dirname(k) == pdir}
                if refs.stem(posixpath.basename(twin)) not in taken and posixpath.basename(twin) not in names_here:
                    tree[twin] = "function(zqtwin_of_nested a)\nendfunction()\n"
        if not single and draw(st.integers(0, 3)) == 0:
            # '@module NAME' where NAME is spelled exactly like the module name CMinx would generate anyway
            eff = prefix if prefix is not None else proj_name
            sep_ = rst.get("module_path_separator", ".")
            for rel in sorted(tree):
                c = tree[rel]
                if c and c.startswith("#[[[ @module zq"):
                    gen_name = eff + sep_ + (rel if rst.get("file_extensions_in_modules") else rel[:-len(".cmake")]
                                             if rel.endswith(".cmake") else rel)
                    if " " not in gen_name and "(" not in gen_name:
                        head, _, rest = c.partition("\n")
                        tree[rel] = "#[[[ @module " + gen_name + "\n" + rest
        for rel in sorted(tree):
            c = tree[rel]
            if c and c.startswith("#[[[ @module"):
                how = draw(st.integers(0, 5))
                if how == 1:
                    c = c.replace("#[[[ @module ", "#[[[ @module\t", 1)       # a TAB between '@module' and the name
                elif how == 2:
                    c = "#[[[\t@module" + c[len("#[[[ @module"):]            # a TAB before '@module'
                elif how == 3:
                    c = c.replace("\n", "\r\n")                            # the file was saved with CRLF line ends
                tree[rel] = c
        locs = draw(st.lists(st.sampled_from(LOCS), min_size=1, max_size=2, unique=True))
        files = gen.base_files(None)
        files["cfg"] = None
        files["decoys/zzdecoy/decoyfile.cmake"] = "function(zqdecoy a)\nendfunction()\n"
        for loc in locs:
            root = posixpath.join(loc, proj_name)
            files[root] = None
            for rel, c in tree.items():
                files[posixpath.join(root, rel)] = c
        placements = []
        for _ in range(cfg["placements"]):
            loc = draw(st.sampled_from(locs))
            root = posixpath.join(loc, proj_name)
            target = posixpath.join(root, single) if single else root
            tdir = posixpath.dirname(target) if single else target
            cwd = draw(st.sampled_from(sorted({"", loc, root, "elsewhere", posixpath.dirname(loc) or loc, tdir})))
            forms = [posixpath.relpath(target, cwd or "."), "./" + posixpath.relpath(target, cwd or "."),
                     "{BASE}/" + target]
            if not single:
                forms.append(posixpath.relpath(target, cwd or ".") + "/")
                # a detour through the parent: ../<loc-last>/<proj>
                forms.append(posixpath.join(posixpath.relpath(posixpath.dirname(target), cwd or "."), "..",
                                            posixpath.basename(posixpath.dirname(target)), proj_name))
            placements.append({"loc": loc, "cwd": cwd, "input": draw(st.sampled_from(forms)),
                               "prefix_src": draw(st.integers(0, 2)), "listing_key": draw(st.integers(0, 9)),
                               # another directory documented first in the same invocation
                               "decoy_first": draw(st.integers(0, 3)) == 0,
                               "stale_out": draw(st.integers(0, 2)) == 0,
                               # the documented Python entry point instead of the command line
                               "api": draw(st.integers(0, 4)) == 0})
        return {"files": files, "proj_name": proj_name, "tree": tree, "single": single, "prefix": prefix, "rst": rst,
                "placements": placements}
    return world()


def expected_names(spec, rel):
    """-> (set of acceptable titles, set of acceptable module names) for a file without a named @module."""
    prefix = spec["prefix"]
    sep = (spec["rst"] or {}).get("module_path_separator", ".")
    ext_t = (spec["rst"] or {}).get("file_extensions_in_titles", False)
    ext_m = (spec["rst"] or {}).get("file_extensions_in_modules", False)
    if spec["single"]:
        path_forms = [posixpath.basename(rel)]
    else:
        if prefix is None:
            prefix = spec["proj_name"]
        path_forms = [rel, rel.replace("/", sep)]

    def names(keep_ext):
        out = set()
        for pf in path_forms:
            p = pf if keep_ext else (pf[:-len(".cmake")] if pf.endswith(".cmake") else pf)
            out.add(p if prefix is None else prefix + sep + p)
        return out
    return names(ext_t), names(ext_m)


_MODHEAD = None


def module_info(text):
    """Recover what the generator put into the file's leading @module doccomment (from the source text itself)."""
    global _MODHEAD
    import re
    if _MODHEAD is None:
        _MODHEAD = re.compile(r"^#\[\[\[[ \t]?@module(?:[ \t]+(\S+))?[ \t]*\r?$")
    head, _, rest = text.partition("\n")
    m = _MODHEAD.match(head)
    if not m:
        return None
    name = m.group(1) or None
    body = []
    for ln in rest.split("\n"):
        if ln.startswith("#]]"):
            break
        body.append(ln[2:] if ln.startswith("# ") else ln[1:])
    return {"name": name, "body": body}


def check_page(spec, rel, src_text, page_text, where):
    viols = []
    pg = refs.parse_page(page_text)
    hc = _first_header(spec)
    if pg.title is None or pg.over != hc * len(pg.title) or pg.under != hc * len(pg.title):
        viols.append(viol("title-frame", f"{where}: {rel}: frame {pg.over!r} / {pg.title!r} / {pg.under!r} with header char {hc!r}"))
    mods = [k for k, (_n, name, _a) in enumerate(pg.directives) if name == "module"]
    if len(mods) != 1 or mods[0] != 0:
        viols.append(viol("module-directive", f"{where}: {rel}: module directives at {mods} of {[d[1] for d in pg.directives][:5]}"))
        return viols
    mod_arg = pg.directives[0][2]
    info = module_info(src_text)
    titles, modnames = expected_names(spec, rel)
    if info and info["name"]:
        if pg.title != info["name"] or mod_arg != info["name"]:
            viols.append(viol("module-name-override", f"{where}: {rel}: @module {info['name']!r} but title {pg.title!r} module {mod_arg!r}"))
    else:
        if pg.title not in titles:
            viols.append(viol("title-not-from-prefix-and-relpath",
                              f"{where}: {rel}: title {pg.title!r}, expected one of {sorted(titles)}",
                              mode="single-file" if spec["single"] else "directory",
                              part=_which_part(pg.title, titles, spec)))
        if mod_arg not in modnames:
            viols.append(viol("module-not-from-prefix-and-relpath",
                              f"{where}: {rel}: module {mod_arg!r}, expected one of {sorted(modnames)}",
                              mode="single-file" if spec["single"] else "directory",
                              part=_which_part(mod_arg, modnames, spec)))
    if info:
        body = refs.directive_body(pg, 0)
        want = ["   " + ln if ln else "" for ln in info["body"]]
        got = [ln for ln in body]
        # the body lines appear, in order, contiguous, inside the module directive
        if info["body"]:
            joined = "\n".join(got)
            if "\n".join(want) not in joined:
                viols.append(viol("module-doc-not-in-directive", f"{where}: {rel}: module body {info['body']} not inside the module directive"))
        for k in range(1, len(pg.directives)):
            seg = "\n".join(refs.directive_body(pg, k))
            for ln in info["body"]:
                if ln and ln.split(" ")[0] in seg:
                    viols.append(viol("module-doc-attached-to-command", f"{where}: {rel}: {ln!r} appears under directive {pg.directives[k][1:]}"))
                    break
    return viols


def _which_part(got, acceptable, spec):
    """Classify a wrong name: does it at least end like an acceptable one (prefix wrong) or not (path part wrong)?"""
    if got is None:
        return "missing"
    sep = (spec["rst"] or {}).get("module_path_separator", ".")
    for a in acceptable:
        tail = a.split(sep, 1)[1] if (spec["prefix"] is not None or not spec["single"]) and sep in a else a
        if got.endswith(tail) and not got.startswith("/"):
            return "prefix"
    return "path"


def _first_header(spec):
    hd = (spec.get("rst") or {}).get("headers")
    if hd is None:
        return "#"
    if isinstance(hd, str):
        return hd.split()[0]
    return hd[0]


def evaluate(spec, ctx):
    viols = []
    base = core.new_base()
    try:
        core.materialise(base, spec["files"])
        tree = spec["tree"]
        ch = refs.children(tree)
        _probes(ctx, spec, tree)
        heads = []      # per placement: {page rel: (title block + module line)}
        for pi, pl in enumerate(spec["placements"]):
            where = f"placement {pi}"
            rst = dict(spec["rst"] or {})
            user_rst = {}
            argv = ["-r"] if not spec["single"] else []
            if spec["prefix"] is not None:
                if pl["prefix_src"] == 0:
                    argv += ["-p", spec["prefix"]]
                elif pl["prefix_src"] == 1:
                    rst["prefix"] = spec["prefix"]
                else:
                    user_rst["prefix"] = spec["prefix"]
            remove_outputs(base, ["cfg/s.yaml", "home/.config/cminx/config.yaml"])
            if pl.get("stale_out") and os.path.isdir(os.path.join(base, "out")):
                # the output directory of the previous placement stays, every page replaced by a page of "another
                # project" (other title, longer or torn) stamped in the future: this run must still produce its own pages
                import time as _time
                future = _time.time() + 86400 * 365
                for k in sorted(core.read_tree(base, "out")):
                    pth = os.path.join(base, "out", k)
                    with open(pth, "w") as f:
                        f.write("\n#####\nother\n#####\n\n.. module:: other\n\n" + ("stale line\n" * (40 if len(k) % 2 else 0)))
                    os.utime(pth, (future, future))
                ctx.probes["stale_pages_in_output_dir"] += 1
            else:
                remove_outputs(base, ["out"])
            s_text, u_text = build_config(None, None, rst), build_config(None, None, user_rst)
            if s_text:
                core.materialise(base, {"cfg/s.yaml": s_text})
                argv += ["-s", "{BASE}/cfg/s.yaml"]
            if u_text:
                core.materialise(base, {"home/.config/cminx/config.yaml": u_text})
            argv += ["-o", "{BASE}/out"] + (["{BASE}/decoys/zzdecoy"] if pl.get("decoy_first") else []) + [pl["input"]]
            if pl.get("decoy_first"):
                ctx.probes["other_input_first"] += 1
            entry = None
            if pl.get("api"):
                ctx.probes["python_api_entry"] += 1
                cm_ = core.import_cminx()
                inputs_ = argv[argv.index("{BASE}/out") + 1:]

                def entry(_argv, _cm=cm_, _rst=dict(spec["rst"] or {}), _inputs=inputs_, _single=bool(spec["single"])):
                    from cminx.config import InputSettings, OutputSettings, RSTSettings, Settings
                    hd = _rst.get("headers")
                    kw = {"prefix": spec["prefix"], "module_path_separator": _rst.get("module_path_separator", "."),
                          "file_extensions_in_titles": _rst.get("file_extensions_in_titles", False),
                          "file_extensions_in_modules": _rst.get("file_extensions_in_modules", False)}
                    if hd is not None:
                        kw["headers"] = tuple(hd.split() if isinstance(hd, str) else hd)     # API callers often pass a tuple
                    st_ = Settings(input=InputSettings(recursive=not _single), output=OutputSettings(directory=base + "/out"),
                                   rst=RSTSettings(**kw))
                    for i_ in _inputs:
                        _cm.document(i_.replace("{BASE}", base), st_)
            res = core.run_call(base, {"cwd": pl["cwd"], "argv": argv, "listing_key": pl["listing_key"]}, entry=entry)
            ctx.note_call(res)
            if res.status != 0:
                viols.append(viol("run-failed", f"{where}: status {res.status} exc {res.exc}"))
                break
            pages = {k: v for k, v in core.read_tree(base, "out").items() if posixpath.basename(k) != "index.rst"}
            head = {}
            seen_titles = {}
            for k, text in sorted(pages.items()):
                if spec["single"]:
                    rel = spec["single"]
                    if k != refs.stem(posixpath.basename(rel)) + ".rst":
                        continue
                else:
                    d = posixpath.dirname(k)
                    cands = [f for f in ch.get(d, ([], []))[1] if refs.is_cmake(f) and refs.stem(f) == posixpath.basename(k)[:-4]]
                    if not cands:
                        continue
                    rel = posixpath.join(d, cands[0])
                viols += check_page(spec, rel, tree[rel], text, where)
                pg = refs.parse_page(text)
                head[k] = "\n".join([str(pg.over), str(pg.title), str(pg.under)] +
                                    [pg.lines[n] for n, name, _a in pg.directives[:1]])
                if pg.title in seen_titles:
                    viols.append(viol("titles-not-distinct", f"{where}: {k} and {seen_titles[pg.title]} are both titled {pg.title!r}"))
                seen_titles[pg.title] = k
            heads.append(head)
            if viols:
                break
        if not viols and heads:
            for pi, h in enumerate(heads[1:], 1):
                if h != heads[0]:
                    diff = sorted(k for k in set(h) | set(heads[0]) if h.get(k) != heads[0].get(k))
                    viols.append(viol("name-depends-on-placement",
                                      f"placement {pi} vs 0: title/module differ for {diff[:4]}: "
                                      f"{[heads[0].get(d) for d in diff[:1]]} vs {[h.get(d) for d in diff[:1]]}"))
                    break
        pls = spec["placements"]
        nontriv = len({(p["cwd"], p["loc"]) for p in pls}) >= 2 and bool(heads and heads[0])
        ctx.note_case(core.spec_digest([tree, spec["prefix"], spec["rst"], spec["single"], pls]), nontriv)
    finally:
        core.drop_base(base)
    return viols


def _probes(ctx, spec, tree):
    ctx.probes["single_file_input" if spec["single"] else "dir_input"] += 1
    pls = spec["placements"]
    if any(p["input"] in (".", "./.", "./") for p in pls):
        ctx.probes["spelled_dot"] += 1
    if any(".." in p["input"] for p in pls):
        ctx.probes["spelled_dotdot"] += 1
    if any(p["input"].startswith("{BASE}") for p in pls):
        ctx.probes["spelled_abs"] += 1
    if any(p["input"].endswith("/") for p in pls):
        ctx.probes["spelled_trailing_slash"] += 1
    if spec["prefix"] is None:
        ctx.probes["prefix_default"] += 1
    else:
        for p in pls:
            ctx.probes[("prefix_cli", "prefix_sfile", "prefix_user")[p["prefix_src"]]] += 1
    rst = spec["rst"] or {}
    if rst.get("module_path_separator", ".") != ".":
        ctx.probes["sep_not_dot"] += 1
    if rst.get("file_extensions_in_titles"):
        ctx.probes["ext_in_titles"] += 1
    if rst.get("file_extensions_in_modules"):
        ctx.probes["ext_in_modules"] += 1
    if rst.get("headers"):
        ctx.probes["custom_headers"] += 1
    if any(tree[r] == "function(zqtwin_of_nested a)\nendfunction()\n" for r in tree):
        ctx.probes["path_spelled_with_separator_twin"] += 1
    eff = spec["prefix"] if spec["prefix"] is not None else spec["proj_name"]
    if any(rel.split("/")[0] == eff and tree[rel] is None for rel in tree):
        ctx.probes["subdir_named_like_prefix"] += 1
    if any(c and (c.startswith("#[[[\t@module") or c.startswith("#[[[ @module\t") or (c.startswith("#[[[ @module") and "\r\n" in c))
           for c in tree.values()):
        ctx.probes["module_head_with_tab_or_crlf"] += 1
    for rel, c in tree.items():
        if c and module_info(c) is not None:
            info = module_info(c)
            if info["name"] and not info["name"].startswith("zq"):
                ctx.probes["module_named_like_generated"] += 1
            ctx.probes["module_named" if info["name"] else "module_unnamed"] += 1
            if info["body"]:
                ctx.probes["module_body"] += 1
    if any(rel.count("/") >= 2 for rel in tree):
        ctx.probes["depth_ge_2"] += 1
    if len({p["loc"] for p in pls}) >= 2:
        ctx.probes["moved_tree"] += 1


MANIFEST = {
    "engine": "E1 simworld",
    "design_ref": "DESIGN.md section 3 (C12), section 2",
    "technique": "deterministic simulation of placement: the same logical tree run from seeded absolute locations, working "
                 "directories and input-path spellings with the prefix arriving from -p / -s file / user config; per-page title and "
                 "module-directive oracle plus cross-placement equality",
    "level_text": "Seeded exploration: every page of every run is checked for the title frame (first header character x title "
                  "length), exactly one module directive before any entry, title/module = [prefix + sep +] relative path with the "
                  "extension options applied (a lone file: base name), @module NAME override, module doc inside the directive and "
                  "never under the following command, pairwise distinct titles; and the title block + module directive must be "
                  "byte-identical across 3-5 placements of the same tree.  Placements may document another directory first in the same "
                  "invocation and may find the previous placement's pages - overwritten with foreign text and stamped in the future - "
                  "still in the output directory.",
    "level_note": "trusted: the line-based page reader; both '/'-kept and '/'-replaced forms of nested relative paths are accepted",
}
