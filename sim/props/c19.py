"""C19 - cminx_gen_rst() in CMake is equivalent to the command line.

E2 "cmakesim": a two-party system.  Real CMake runs a generated driver that
includes the working tree's cmake/cminx.cmake and calls cminx_gen_rst(); the
peer behind CMINX_EXECUTABLE is either a recording stub with a scripted failure
(simulated party, fault injection) or the working-tree CLI (real party, output
tree compared with a direct invocation).

Replay spec: {"mode": "stub"|"real", "driver": "script"|"project", "files", "input", "input_kind", "output", "extra": [...],
 "cwd", "plan": ok|exit:N|kill:N|stderr|missing|noexec|real, "second": {"output","extra"}|null, "twice": bool}
"""
import os
import posixpath
import stat
import subprocess
import sys

from hypothesis import strategies as st

from .. import cmakegen, core, gen, refs
from .common import viol

ID = "C19"
LEVEL = "exploration"
TIERS = {
    "quick": {"shards": 96, "examples": 16, "det_shards": 2},
    "thorough": {"shards": 1024, "examples": 40, "det_shards": 8},
}
RULE = ("case = (cminx_gen_rst call, peer plan): input (file, flat or nested directory, missing path, file with a syntax "
        "error; relative inputs only under cmake -P), output directory, 0-4 extra arguments (flags with values, arguments "
        "with spaces, quotes, $, #, glob characters, leading dashes, balanced brackets), driver kind (cmake -P script or "
        "project configure) and a peer: recording stub with plan {ok, exit n, SIGKILL, SIGSEGV, stderr+exit 0, missing, not "
        "executable} or the working-tree CLI; non-trivial iff >= 1 extra argument or a failing peer or a directory input; "
        "distinct by sha256(driver script, peer plan)")
COMPONENTS = {
    "real": ["CMake 3.25 executing cmake/cminx.cmake of the working tree", "in real-peer shards: the working-tree cminx CLI as "
             "a child process (fresh interpreter per call)", "kernel tmpfs"],
    "simulator_owned": ["the driver script / CMakeLists.txt", "input tree, cwd, HOME", "the peer's behaviour in stub shards "
                        "(argv recording, exit status, death by signal, absence, missing x bit)"],
    "stub": ["CMINX_EXECUTABLE in stub shards: a /bin/sh recorder that appends its argv NUL-separated to a file and then "
             "exits / dies as the plan says"],
    "threads_tasks_network_clock": "none relevant: execute_process is synchronous, no timeout is configured",
}
ASSUMPTIONS = [
    "arguments containing ';' or empty strings cannot be carried verbatim by a CMake list and are not generated; square "
    "brackets are generated balanced within one argument only",
    "relative input/output paths are generated only in script mode, where CMake's cwd and the child's cwd coincide",
    "the find_package(cminx) packaging path (cminx-config.cmake.in + PyInstaller) is not covered",
]
PROBES = ["path_with_colon", "256_failing_files", "same_call_in_a_second_process", "two_calls_one_process", "extra_repeated_token", "stub_ok", "stub_exit_nonzero", "stub_killed", "stub_stderr_exit0", "stub_missing", "stub_noexec", "real_peer",
          "real_peer_failing_input", "driver_project", "driver_script", "input_dir", "input_file", "input_missing",
          "extra_with_space", "extra_with_special", "extra_flag_value", "relative_paths"]

EXTRA_POOL = ["-p", "pfx", "My Prefix", "-e", "*.txt", "build/", "**/gen", "[ab]*.cmake", "-s", "--version-not",
              "a b  c", "quo\"te", "dol$lar", "${NOT_A_VAR}", "#hash", "back\\slash", "-x", "--", "semi-colon-free", "tab\there",
              "'single'", "(paren)", "@AT@", "*", "?", "my-repo", "*-release*", "-r", "--recursive", "pre-r-post"]
STUB = r'''#!/bin/sh
for a in "$@"; do printf '%s\0' "$a"; done >> "$STUB_REC"
printf '\001' >> "$STUB_REC"
case "$STUB_PLAN" in
  exit:*) exit "${STUB_PLAN#exit:}";;
  kill:*) kill -"${STUB_PLAN#kill:}" $$; sleep 5;;
  stderr) echo "warning: something odd" >&2; exit 0;;
  slow:*) sleep "${STUB_PLAN#slow:}"; exit 0;;
esac
exit 0
'''


def swarm(rng, tier):
    return {"mode": rng.choice(["stub", "stub", "stub", "real"]), "project": rng.random() < 0.3,
            "max_extra": rng.choice([0, 2, 4]), "slow": rng.random() < 0.05, "many_bad": rng.random() < 0.5}


def strategy(cfg):
    @st.composite
    def world(draw):
        mode = cfg["mode"]
        driver = "project" if cfg["project"] and draw(st.booleans()) else "script"
        tree = gen.draw_tree(draw, max_depth=2, max_files=2, max_subdirs=2, max_cmds=1, budget=3, with_mod=False)
        gen.fix_for_auto_exclude(tree)
        files = {"home/.config/cminx": None, "tmp": None, "xdgdirs": None, "w/proj": None, "w/build": None, "elsewhere": None}
        for rel, c in tree.items():
            files["w/proj/" + rel] = c
        files["w/bad.cmake"] = "function(f a)\nendfunction(\n"
        files["w/api:v2/mm.cmake"] = "function(zqcolon a)\nendfunction()\n"
        kinds = ["dir", "dir", "file", "missing", "dir_colon"] + (["badfile"] if mode == "real" else [])
        if mode == "real" and cfg.get("many_bad") and draw(st.integers(0, 5)) == 0:
            kinds = ["many_bad"]
            for i_ in range(256):
                files[f"w/manybad/b{i_:03d}.cmake"] = "function(f a)\nendfunction(\n"
        kind = draw(st.sampled_from(kinds))
        cm = sorted(f for f in refs.tree_files(tree) if refs.is_cmake(f))
        target = {"dir": "w/proj", "file": "w/proj/" + (draw(st.sampled_from(cm)) if cm else "zfix.cmake"),
                  "missing": "w/nothing-here", "badfile": "w/bad.cmake", "dir_colon": "w/api:v2",
                  "many_bad": "w/manybad"}[kind]
        cwd = draw(st.sampled_from(["w", "", "elsewhere"]))
        rel_ok = driver == "script"
        inp = posixpath.relpath(target, cwd or ".") if rel_ok and draw(st.booleans()) else "{BASE}/" + target
        out_t = ["w/out dir", "w/docs:html", "w/out", "w/out", "w/out"][draw(st.integers(0, 4))]
        outp = posixpath.relpath(out_t, cwd or ".") if rel_ok and draw(st.booleans()) else "{BASE}/" + out_t
        if mode == "real":
            # only argument lists the real CLI understands
            extra = []
            if draw(st.booleans()):
                extra += ["-p", draw(st.sampled_from(["pfx", "My Prefix", "p.q"]))]
            if draw(st.booleans()):
                extra += ["-e", draw(st.sampled_from(["*.txt", "m.cmake", "a/", "[mn]*.cmake"]))]
                if draw(st.booleans()):
                    extra += ["-e", draw(st.sampled_from(["n1.cmake", "b/", "pfx"]))]
            if draw(st.booleans()):
                files["w/settings.yaml"] = "rst:\n  module_path_separator: '-'\n"
                extra += ["-s", "{BASE}/w/settings.yaml"]
            plan = "real"
        else:
            extra = draw(st.lists(st.sampled_from(EXTRA_POOL), max_size=cfg["max_extra"]))
            if extra and draw(st.integers(0, 3)) == 0:
                extra = extra + [draw(st.sampled_from(extra))]      # a repeated token (two -e flags, equal values)
            plan = draw(st.sampled_from(["ok", "ok", "ok", "exit:1", "exit:3", "exit:255", "kill:9", "kill:11", "stderr",
                                         "missing", "noexec"]))
            # (a peer that needs 31 s and then succeeds - plan "slow:31" - is exercised by the pinned probe
            #  findings/P-C19-slow-peer.json on every run; drawing it here would cost minutes per check)
        second = None
        if mode == "stub" and plan == "ok" and draw(st.integers(0, 3)) == 0:
            # a second, different call in the same CMake process (arguments differing only in punctuation)
            def twist(x):
                for a, b in (("-", "_"), (".", "-"), ("_", "."), (" ", "_")):
                    if a in x:
                        return x.replace(a, b)
                return x + "_2"
            second = {"output": twist(outp), "extra": [twist(e) if i == len(extra) - 1 else e for i, e in enumerate(extra)]}
        twice = second is None and plan in ("ok", "real") and kind in ("dir", "file", "dir_colon") and draw(st.integers(0, 3)) == 0
        return {"mode": mode, "driver": driver, "files": files, "input": inp, "input_kind": kind, "output": outp,
                "extra": extra, "cwd": cwd, "plan": plan, "second": second, "twice": twice}
    return world()


def bracket(s):
    """A CMake bracket argument holding s verbatim."""
    n = 1
    while ("]" + "=" * n) in s:
        n += 1
    return "[" + "=" * n + "[" + s + "]" + "=" * n + "]"


def write_driver(base, spec, peer):
    inp = spec["input"].replace("{BASE}", base)
    outp = spec["output"].replace("{BASE}", base)
    extra = [e.replace("{BASE}", base) for e in spec["extra"]]
    body = (f"set(CMINX_EXECUTABLE {bracket(peer)})\n"
            f"include({bracket(os.path.join(core.REPO, 'cmake', 'cminx.cmake'))})\n"
            f"cminx_gen_rst({bracket(inp)} {bracket(outp)} {' '.join(bracket(e) for e in extra)})\n")
    if spec.get("second"):
        o2 = spec["second"]["output"].replace("{BASE}", base)
        e2 = [e.replace("{BASE}", base) for e in spec["second"]["extra"]]
        body += f"cminx_gen_rst({bracket(inp)} {bracket(o2)} {' '.join(bracket(e) for e in e2)})\n"
    body += f"file(WRITE {bracket(os.path.join(base, 'sentinel.txt'))} continued)\n"
    if spec["driver"] == "script":
        path = os.path.join(base, "drive.cmake")
        with open(path, "w") as f:
            f.write(body)
        return ["cmake", "-P", path], body
    src = os.path.join(base, "cmproj")
    os.makedirs(src, exist_ok=True)
    with open(os.path.join(src, "CMakeLists.txt"), "w") as f:
        f.write("cmake_minimum_required(VERSION 3.19)\nproject(x NONE)\n" + body)
    return ["cmake", "-S", src, "-B", os.path.join(base, "cmbuild")], body


def child_env(base, extra=None):
    env = {k: v for k, v in os.environ.items() if k not in ("VERIF_REPO",)}
    env.update({"HOME": base + "/home", "XDG_CONFIG_DIRS": base + "/xdgdirs", "TMPDIR": base + "/tmp",
                "PYTHONWARNINGS": "ignore", "PYTHONDONTWRITEBYTECODE": "1", "PYTHONHASHSEED": "0"})
    env.pop("XDG_CONFIG_HOME", None)
    env.pop("CMINXDIR", None)
    env.update(extra or {})
    return env


def real_peer(base):
    path = os.path.join(base, "cminx-cli")
    code = ("import sys, warnings; warnings.simplefilter('ignore'); sys.path.insert(0, %r); "
            "from cminx import main; main(sys.argv[1:])" % os.path.join(core.REPO, "src"))
    with open(path, "w") as f:
        f.write("#!/bin/sh\nexec %s -c %s \"$@\"\n" % (sys.executable, "'" + code.replace("'", "'\\''") + "'"))
    os.chmod(path, 0o755)
    return path


def argv_ok(got, inp, is_dir, extra, outp):
    """The statement fixes WHAT is passed (the input, '-o <output>', the extra arguments verbatim and in order,
    '-r' iff directory), not the relative order of these groups: accept any arrangement of the whole groups."""
    import itertools
    for o_form in (["-o", outp], ["--output", outp], ["--output=" + outp]):
        for r_form in (["-r"], ["--recursive"]):
            blocks = [[inp], o_form] + ([r_form] if is_dir else []) + ([list(extra)] if extra else [])
            for perm in itertools.permutations(blocks):
                if [a for b in perm for a in b] == list(got):
                    return True
    return False


def parse_record(path):
    if not os.path.exists(path):
        return []
    with open(path, "rb") as f:
        data = f.read()
    calls = []
    for chunk in data.split(b"\x01"):
        if chunk == b"":
            continue
        parts = chunk.split(b"\0")
        if parts and parts[-1] == b"":
            parts = parts[:-1]
        calls.append([p.decode("utf-8", "replace") for p in parts])
    return calls


def evaluate(spec, ctx):
    viols = []
    base = core.new_base()
    try:
        core.materialise(base, spec["files"])
        cwd = os.path.join(base, spec["cwd"]) if spec["cwd"] else base
        inp = spec["input"].replace("{BASE}", base)
        outp = spec["output"].replace("{BASE}", base)
        extra = [e.replace("{BASE}", base) for e in spec["extra"]]
        inp_abs = inp if os.path.isabs(inp) else os.path.normpath(os.path.join(cwd, inp))
        is_dir = os.path.isdir(inp_abs)
        want_argv = [inp] + (["-r"] if is_dir else []) + extra + ["-o", outp]
        ctx.probes["driver_" + spec["driver"]] += 1
        ctx.probes["input_" + {"dir": "dir", "file": "file", "missing": "missing", "badfile": "file", "dir_colon": "dir",
                               "many_bad": "dir"}[spec["input_kind"]]] += 1
        if ":" in inp or ":" in outp:
            ctx.probes["path_with_colon"] += 1
        if spec["input_kind"] == "many_bad":
            ctx.probes["256_failing_files"] += 1
        if len(set(extra)) < len(extra):
            ctx.probes["extra_repeated_token"] += 1
        if any(" " in e for e in extra):
            ctx.probes["extra_with_space"] += 1
        if any(c in e for e in extra for c in "\"$#\\*?[(@'"):
            ctx.probes["extra_with_special"] += 1
        if any(e in ("-p", "-e", "-s") for e in extra):
            ctx.probes["extra_flag_value"] += 1
        if not os.path.isabs(inp) or not os.path.isabs(outp):
            ctx.probes["relative_paths"] += 1
        nontriv = bool(extra) or is_dir or spec["plan"] not in ("ok", "real")
        if spec["mode"] == "stub":
            plan = spec["plan"]
            peer = os.path.join(base, "peer-stub")
            rec = os.path.join(base, "record.bin")
            if plan != "missing":
                with open(peer, "w") as f:
                    f.write(STUB)
                os.chmod(peer, 0o644 if plan == "noexec" else 0o755)
            cmd, body = write_driver(base, spec, peer)
            p = subprocess.run(cmd, cwd=cwd, env=child_env(base, {"STUB_REC": rec, "STUB_PLAN": plan}),
                               capture_output=True, text=True, timeout=120)
            ctx.runs += 1
            if spec.get("twice") and p.returncode == 0:
                # the configure step runs again later in the same build / working directory; the output directory is gone
                import shutil
                out_abs_ = outp if os.path.isabs(outp) else os.path.normpath(os.path.join(cwd, outp))
                shutil.rmtree(out_abs_, ignore_errors=True)
                n1 = len(parse_record(rec))
                p = subprocess.run(cmd, cwd=cwd, env=child_env(base, {"STUB_REC": rec, "STUB_PLAN": plan}),
                                   capture_output=True, text=True, timeout=120)
                ctx.runs += 1
                ctx.probes["same_call_in_a_second_process"] += 1
                n2 = len(parse_record(rec))
                if n2 != n1 + 1:
                    viols.append(viol("second-run-skipped", f"second CMake process over the same build directory, output "
                                      f"directory absent: the peer was started {n2 - n1} times"))
                with open(rec, "rb") as f_:
                    data_ = f_.read().split(b"\x01")
                with open(rec, "wb") as f_:
                    f_.write(b"\x01".join(data_[:1] + [b""]))
            calls = parse_record(rec)
            sentinel = os.path.exists(os.path.join(base, "sentinel.txt"))
            peer_fails = plan not in ("ok", "stderr") and not plan.startswith("slow")
            ctx.probes[{"ok": "stub_ok", "stderr": "stub_stderr_exit0", "missing": "stub_missing", "noexec": "stub_noexec"}.get(
                plan, "stub_killed" if plan.startswith("kill") else ("stub_slow_31s" if plan.startswith("slow") else "stub_exit_nonzero"))] += 1
            ctx.note_case(core.spec_digest([body.replace(base, "{BASE}"), plan]), nontriv)
            ctx.last_trace = core.spec_digest([calls and [a.replace(base, "{BASE}") for a in calls[0]], p.returncode != 0, sentinel])
            ctx.trace_digests.add(ctx.last_trace)
            if spec.get("second"):
                ctx.probes["two_calls_one_process"] += 1
                o2 = spec["second"]["output"].replace("{BASE}", base)
                e2 = [e.replace("{BASE}", base) for e in spec["second"]["extra"]]
                want2 = [inp] + (["-r"] if is_dir else []) + e2 + ["-o", o2]
                if not (len(calls) == 2 and argv_ok(calls[0], inp, is_dir, extra, outp) and argv_ok(calls[1], inp, is_dir, e2, o2)):
                    viols.append(viol("calls-not-forwarded-one-by-one",
                                      f"two cminx_gen_rst() calls; peer saw {calls!r}, expected {[want_argv, want2]!r}"))
            elif plan not in ("missing", "noexec"):
                if len(calls) != 1:
                    viols.append(viol("peer-invocation-count", f"CMINX_EXECUTABLE was started {len(calls)} times; cmake rc "
                                      f"{p.returncode}; stderr {p.stderr[-200:]!r}"))
                elif not argv_ok(calls[0], inp, is_dir, extra, outp):
                    which = "recursive-flag" if sorted(a for a in calls[0] if a != "-r") == sorted(a for a in want_argv if a != "-r") \
                        else ("grouping" if sorted(calls[0]) == sorted(want_argv) else "content")
                    viols.append(viol("argv-not-verbatim", f"peer got {calls[0]!r}, expected {want_argv!r}", which=which))
            if peer_fails:
                if p.returncode == 0 or sentinel:
                    viols.append(viol("failure-not-fatal", f"peer plan {plan}: cmake exit {p.returncode}, script continued: {sentinel}"))
            else:
                if p.returncode != 0 or not sentinel:
                    viols.append(viol("success-treated-as-failure", f"peer plan {plan}: cmake exit {p.returncode}, script continued: "
                                      f"{sentinel}; stderr {p.stderr[-300:]!r}"))
        else:
            ctx.probes["real_peer"] += 1
            peer = real_peer(base)
            cmd, body = write_driver(base, spec, peer)
            env = child_env(base)
            p = subprocess.run(cmd, cwd=cwd, env=env, capture_output=True, text=True, timeout=300)
            ctx.runs += 1
            sentinel = os.path.exists(os.path.join(base, "sentinel.txt"))
            out_abs = outp if os.path.isabs(outp) else os.path.normpath(os.path.join(cwd, outp))
            if spec.get("twice") and p.returncode == 0:
                import shutil
                shutil.rmtree(out_abs, ignore_errors=True)
                p = subprocess.run(cmd, cwd=cwd, env=env, capture_output=True, text=True, timeout=300)
                ctx.runs += 1
                ctx.probes["same_call_in_a_second_process"] += 1
            via_cmake = core.read_tree(base, os.path.relpath(out_abs, base))
            import shutil
            shutil.rmtree(out_abs, ignore_errors=True)
            # direct invocation: in project mode the child runs in the build directory, paths are absolute there
            p2 = subprocess.run([peer] + want_argv, cwd=cwd, env=env, capture_output=True, text=True, timeout=300)
            ctx.runs += 1
            direct = core.read_tree(base, os.path.relpath(out_abs, base))
            ctx.note_case(core.spec_digest([body.replace(base, "{BASE}"), "real"]), nontriv)
            ctx.last_trace = core.spec_digest([sorted(via_cmake), p.returncode != 0, p2.returncode != 0, sentinel])
            ctx.trace_digests.add(ctx.last_trace)
            if spec["input_kind"] in ("missing", "badfile", "many_bad"):
                ctx.probes["real_peer_failing_input"] += 1
                if p2.returncode == 0:
                    viols.append(viol("cli-accepted-bad-input", f"direct CLI run on {spec['input_kind']} exited 0"))
            if (p2.returncode != 0) != (p.returncode != 0 or not sentinel):
                viols.append(viol("failure-not-fatal" if p2.returncode != 0 else "success-treated-as-failure",
                                  f"direct CLI exit {p2.returncode}; cmake exit {p.returncode}, script continued: {sentinel}; "
                                  f"cmake stderr {p.stderr[-300:]!r}"))
            if p2.returncode == 0 and via_cmake != direct:
                diff = sorted(k for k in set(via_cmake) | set(direct) if via_cmake.get(k) != direct.get(k))
                viols.append(viol("output-tree-differs", f"cminx_gen_rst vs direct CLI differ in {diff[:6]}"))
    finally:
        core.drop_base(base)
    return viols


MANIFEST = {
    "engine": "E2 cmakesim",
    "design_ref": "DESIGN.md section 3 (C19)",
    "technique": "two-party simulation with a stubbable peer: real CMake drives cmake/cminx.cmake against a recording stub with "
                 "scripted failures (exit n, SIGKILL, SIGSEGV, absent, not executable) or against the working-tree CLI "
                 "(differential with a direct invocation)",
    "level_text": "Seeded exploration: for every generated call the stub's recorded argv must equal [input] + ['-r' iff the input is "
                  "an existing directory] + extra arguments verbatim and in order + ['-o', output]; CMake must fail (and the script "
                  "must not continue) iff the peer failed in any way; with the real CLI as peer the output tree must equal the tree "
                  "of a direct invocation, for files, flat and nested directories, missing paths and files with syntax errors.  Some "
                  "drivers call cminx_gen_rst() twice with arguments differing only in punctuation (both calls must reach the peer), "
                  "some are run again in a second CMake process over the same build directory after the output directory vanished.",
    "level_note": "trusted: CMake 3.25.1 as installed; arguments with ';', empty arguments and unbalanced brackets are outside what "
                  "a CMake list can carry and are not generated",
}
