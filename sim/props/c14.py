"""C14 - index.rst toctrees are closed and complete."""
import posixpath

from .. import core, refs
from . import c13
from .common import E1_ASSUMPTIONS, E1_COMPONENTS, viol

ID = "C14"
LEVEL = "exploration"
TIERS = {
    "quick": {"shards": 128, "examples": 30, "det_shards": 2},
    "thorough": {"shards": 2048, "examples": 80, "det_shards": 8},
}
RULE = ("case = (world, variant) as in C13 with pattern sets biased towards emptying directories and with non-default "
        "module_path_separator; non-trivial iff the tree has a subdirectory that is pattern-excluded, auto-excluded or "
        "emptied by exclusion, or recursion reaches depth >= 2; distinct by sha256(tree, settings, schedule)")
COMPONENTS = E1_COMPONENTS
ASSUMPTIONS = E1_ASSUMPTIONS + [
    "index titles: the path separator of the relative directory may be kept or replaced by the configured separator "
    "(the statement does not choose); both are accepted"]
PROBES = ["rerun_with_output_inside_input", "other_input_first", "name_or_prefix_with_backslash", "directory_named_CMakeFiles", "rerun_over_longer_stale_indexes", "cwd_inside_tree", "dir_pattern_excluded", "dir_auto_excluded", "dir_emptied_by_exclusion", "depth_ge_2_recursive",
          "sep_not_dot", "nested_below_dir_without_cmake", "nonrecursive", "prefix_default", "prefix_explicit"]


def swarm(rng, tier):
    return {
        "faults": False,
        "tree": rng.choice(["wide", "deep", "deep"]),
        "variants": 2 if tier == "quick" else 3,
        "odd_names": rng.random() < 0.3,
        "rst_opts": rng.random() < 0.6,
        "max_patterns": rng.choice([0, 2, 3, 4]),
        "single": False,
        "backslash_names": rng.random() < 0.25,
    }


DECOY = "decoys/zzdecoy/zzdecoy_mod.cmake"


def strategy(cfg):
    return c13.world_strategy(cfg)


def title_ok(title, prefix, sep, reld):
    if reld == "":
        return title == prefix
    return title in (prefix + sep + reld, prefix + sep + reld.replace("/", sep))


def check_tree(spec, pages, tree, walk, where, ctx=None, closure_only=False):
    """Closure / completeness oracle over one generated output tree (dict relpath -> text)."""
    viols = []
    prefix = c13.effective_prefix(spec)
    sep = (spec.get("rst") or {}).get("module_path_separator", ".")
    indexes = {k: refs.parse_index(v) for k, v in pages.items() if posixpath.basename(k) == "index.rst"}
    ch = refs.children(tree)
    for k, ix in sorted(indexes.items()):
        d = posixpath.dirname(k)
        if len(ix.toctrees) != 1:
            viols.append(viol("toctree-count", f"{where}: {k} has {len(ix.toctrees)} toctrees"))
            continue
        if len(set(ix.entries)) != len(ix.entries):
            viols.append(viol("duplicate-entry", f"{where}: {k} entries {ix.entries}"))
        for e in ix.entries:
            target = posixpath.normpath(posixpath.join(d, e if e.endswith("/index.rst") else e + ".rst"))
            if target not in pages:
                cause = "other"
                sub = posixpath.normpath(posixpath.join(d, posixpath.dirname(e))) if e.endswith("/index.rst") else None
                if sub is not None and sub in walk.emptied:
                    cause = "dir-emptied-by-exclusion"
                viols.append(viol("dangling-entry", f"{where}: {k} lists {e!r} but {target} was not generated", cause=cause))
        if not title_ok(ix.title, prefix, sep, d):
            viols.append(viol("index-title", f"{where}: {k} is titled {ix.title!r}; prefix {prefix!r} sep {sep!r} dir {d!r}",
                              which="top" if d == "" else "sub", sep="dot" if sep == "." else "other"))
        hc = _first_header(spec)
        if ix.title is not None and (ix.over != hc * len(ix.title) or ix.under != hc * len(ix.title)):
            viols.append(viol("index-title-frame", f"{where}: {k} frame {ix.over!r}/{ix.under!r} for title {ix.title!r}"))
    # reachability from the top index
    if pages:
        reach = set()
        stack = ["index.rst"] if "index.rst" in pages else []
        while stack:
            k = stack.pop()
            if k in reach or k not in pages:
                continue
            reach.add(k)
            if posixpath.basename(k) == "index.rst" and k in indexes:
                d = posixpath.dirname(k)
                for e in indexes[k].entries:
                    stack.append(posixpath.normpath(posixpath.join(d, e if e.endswith("/index.rst") else e + ".rst")))
        orphans = sorted(set(pages) - reach)
        if orphans:
            cause = "other"
            if any(any(o == e + "/index.rst" or o.startswith(e + "/") for e in walk.emptied if e) for o in orphans) \
                    or "" in walk.emptied:
                cause = "dir-emptied-by-exclusion"
            viols.append(viol("orphan-page", f"{where}: not reachable from the top index.rst: {orphans[:6]}", cause=cause))
    # exact entry sets where the reference walk is unambiguous
    if not walk.ambiguous and not closure_only:
        pdirs = set(walk.dirs)
        for d in walk.dirs:
            k = posixpath.join(d, "index.rst")
            if k not in indexes:
                continue        # C13's business (missing output)
            want = {refs.stem(posixpath.basename(f)) for f in walk.files if posixpath.dirname(f) == d}
            if spec["recursive"]:
                want |= {s + "/index.rst" for s in ch[d][0] if posixpath.join(d, s) in pdirs}
            got = set(indexes[k].entries)
            if got != want:
                viols.append(viol("toctree-entries", f"{where}: {k} lists {sorted(got)} expected {sorted(want)}"))
    return viols


def _first_header(spec):
    hd = (spec.get("rst") or {}).get("headers")
    if hd is None:
        return "#"
    if isinstance(hd, str):
        return hd.split()[0]
    return hd[0]


def evaluate(spec, ctx):
    viols = []
    base = c13.setup_world(spec)
    try:
        tree, ig, walk = c13.reference(spec, base)
        ch = refs.children(tree)
        if walk.pattern_excluded_dirs:
            ctx.probes["dir_pattern_excluded"] += 1
        if walk.auto_excluded:
            ctx.probes["dir_auto_excluded"] += 1
        if walk.emptied:
            ctx.probes["dir_emptied_by_exclusion"] += 1
        if spec["recursive"] and any(d.count("/") >= 1 for d in walk.dirs):
            ctx.probes["depth_ge_2_recursive"] += 1
        if (spec.get("rst") or {}).get("module_path_separator", ".") != ".":
            ctx.probes["sep_not_dot"] += 1
        if not spec["recursive"]:
            ctx.probes["nonrecursive"] += 1
        ctx.probes["prefix_default" if spec["prefix"] is None else "prefix_explicit"] += 1
        if any("\\" in k for k in tree) or "\\" in (spec["prefix"] or ""):
            ctx.probes["name_or_prefix_with_backslash"] += 1
        if any(posixpath.basename(k) == "CMakeFiles" for k in ch):
            ctx.probes["directory_named_CMakeFiles"] += 1
        if any(v["cwd"] == spec["proj"] or v["cwd"].startswith(spec["proj"] + "/") for v in spec["variants"]):
            ctx.probes["cwd_inside_tree"] += 1
        if any(d for d in ch if d and not any(f.endswith(".cmake") for f in ch[d][1])
               and any(ch2.startswith(d + "/") for ch2 in ch)):
            ctx.probes["nested_below_dir_without_cmake"] += 1
        nontriv = bool(walk.pattern_excluded_dirs or walk.auto_excluded or walk.emptied
                       or (spec["recursive"] and any(d.count("/") >= 1 for d in walk.dirs)))
        for vi, var in enumerate(spec["variants"]):
            res = c13.run_variant(base, spec, var, ctx, with_faults=False)
            ctx.note_case(core.spec_digest([tree, spec["patterns"], spec["recursive"], spec["auto_exclude"],
                                            spec["prefix"], spec["rst"], var["listing_key"], var["listing_explicit"]]),
                          nontriv)
            if res.status != 0:
                viols.append(viol("run-failed", f"variant {vi}: status {res.status} exc {res.exc}"))
                break
            pages = core.read_tree(base, spec["out"])
            viols += check_tree(spec, pages, tree, walk, f"variant {vi}", ctx)
            if viols:
                break
            if vi == 0 and spec["out_kind"] == "nested" and pages:
                # the same command again while the output directory of the first run sits inside the input tree (with
                # auto-exclusion off the walk now meets it): whatever is written about it, every index must stay closed
                # and every page reachable.  Entry sets are not compared (what the output directory itself counts as is
                # not stated).
                overlay, argv = c13.variant_setup(spec, var)
                r4 = core.run_call(base, {"cwd": var["cwd"], "argv": argv, "listing_key": var["listing_key"],
                                          "listing_explicit": var["listing_explicit"]})
                ctx.note_call(r4)
                ctx.probes["rerun_with_output_inside_input"] += 1
                if r4.status != 0:
                    viols.append(viol("run-failed", f"re-run with the output directory inside the input: status {r4.status} exc {r4.exc}"))
                    break
                viols += check_tree(spec, core.read_tree(base, spec["out"]), tree, walk,
                                    "re-run with the output directory of the first run inside the input tree", ctx, closure_only=True)
                if viols:
                    break
            if vi == 0 and spec["out_kind"] != "nested" and pages:
                # the same run again over an output directory whose index files are older, LONGER versions (a bigger
                # tree was documented there before) stamped in the future: the indexes must come out closed again
                import os
                import time as _time
                future = _time.time() + 86400 * 365
                for k, text in pages.items():
                    if posixpath.basename(k) == "index.rst":
                        pth = os.path.join(base, spec["out"], k)
                        with open(pth, "w") as f:
                            f.write(text + "   zz_removed_module\n   zz_removed_dir/index.rst\n" + text.split("\n")[-2] + "\n")
                        os.utime(pth, (future, future))
                overlay, argv = c13.variant_setup(spec, var)
                r2 = core.run_call(base, {"cwd": var["cwd"], "argv": argv, "listing_key": var["listing_key"],
                                          "listing_explicit": var["listing_explicit"]})
                ctx.note_call(r2)
                ctx.probes["rerun_over_longer_stale_indexes"] += 1
                if r2.status != 0:
                    viols.append(viol("run-failed", f"re-run over stale indexes: status {r2.status} exc {r2.exc}"))
                    break
                viols += check_tree(spec, core.read_tree(base, spec["out"]), tree, walk, "re-run over stale, longer index files", ctx)
                if viols:
                    break
                # another directory documented first in the same invocation, into the same output directory: this
                # input's indexes (written last) must still name this input's directories and be closed
                if "index.rst" in pages and "zzdecoy_mod.rst" not in pages:
                    c13.remove_outputs(base, [spec["out"]])
                    core.materialise(base, {DECOY: "set(zqdecoy 1)\n"})
                    overlay, argv = c13.variant_setup(spec, var)
                    argv = argv[:-1] + [base + "/" + posixpath.dirname(DECOY), argv[-1]]
                    r3 = core.run_call(base, {"cwd": var["cwd"], "argv": argv, "listing_key": var["listing_key"],
                                              "listing_explicit": var["listing_explicit"]})
                    ctx.note_call(r3)
                    ctx.probes["other_input_first"] += 1
                    if r3.status != 0:
                        viols.append(viol("run-failed", f"another directory first: status {r3.status} exc {r3.exc}"))
                        break
                    pages3 = {k: v for k, v in core.read_tree(base, spec["out"]).items() if k != "zzdecoy_mod.rst"}
                    viols += check_tree(spec, pages3, tree, walk, "another directory documented first in the same invocation", ctx)
                    if viols:
                        break
    finally:
        core.drop_base(base)
    return viols


MANIFEST = {
    "engine": "E1 simworld",
    "design_ref": "DESIGN.md section 3 (C14), section 2",
    "technique": "deterministic simulation: seeded directory worlds x listing schedules; closure/reachability oracle over the "
                 "generated output tree plus entry-set equality with a reference walk",
    "level_text": "Seeded exploration: for every exit-0 run in a simulated world, every index.rst is parsed and checked for one "
                  "toctree, distinct entries, no dangling entry, every generated file reachable from the top index, titles naming "
                  "the directory with the prefix, and (where the reference walk is unambiguous) exact entry sets.  Worlds are "
                  "biased towards directories that are excluded, auto-excluded, emptied by exclusion or nested below directories "
                  "without CMake files, with separators other than '.', working directories inside the tree, and a re-run over older, "
                  "longer, future-stamped index files left in the output directory, a run with another directory documented first into the "
                  "same output directory, and a re-run with the first run's output directory inside the input tree (closure only).",
    "level_note": "trusted: the line-based index reader (relies only on the format C14/C20 state), reference walk, tmpfs",
}
