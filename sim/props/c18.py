"""C18 - pages go only where requested: the output directory, or stdout.
Replay spec: {"files", "proj", "out", "out_kind", "prepop": {rel: text}, "mode": "o"|"stdout", "input_kind", "input_file",
 "recursive", "auto_exclude", "prefix", "rst", "input_opts", "config_dir_absent",
 "variants": [{"cwd", "input", "output", "listing_key", "listing_explicit", "prefix_src", "faults"}]}
"""
import posixpath

from hypothesis import strategies as st

from .. import core, gen, refs
from . import c13
from .common import (E1_ASSUMPTIONS, E1_COMPONENTS, build_config, effects_outside, remove_outputs, viol)

ID = "C18"
LEVEL = "exploration"
TIERS = {
    "quick": {"shards": 128, "examples": 24, "det_shards": 2},
    "thorough": {"shards": 2048, "examples": 60, "det_shards": 8},
}
RULE = ("case = (world, mode, variant): a tree or single file, an output placement (sibling, absolute, relative, nested in "
        "the input tree at any depth, a parent of the input, below not-yet-existing ancestors, pre-populated with unrelated "
        "files and stale pages) or no -o at all, one listing schedule and optionally an I/O fault plan; non-trivial iff "
        "(-o) the output dir is pre-populated, nested, a parent, or spelled relative, or a fault fired; (stdout) >= 2 pages "
        "are printed; distinct by sha256(world, argv, schedule, faults)")
COMPONENTS = E1_COMPONENTS
ASSUMPTIONS = E1_ASSUMPTIONS + [
    "stdout blocks: each page is followed by one or two newline characters (pages end in a newline, so 'one empty line' "
    "is ambiguous by one); order between directories is not constrained",
    "inputs are diagnostic-free by construction (no log line is expected on stdout in stdout mode)"]
PROBES = ["api_output_through_symlink_dotdot", "stdout_twin_nested_in_input", "module_with_crlf", "hidden_directory", "symlinked_module", "input_through_symlink", "output_dir_from_settings_file", "mode_stdout", "mode_o", "out_nested_deep", "out_parent", "out_prepopulated", "out_stale_page", "out_new_ancestors",
          "out_rel", "out_abs", "single_file_input", "stdout_ge_2_pages", "stdout_multi_dir", "config_dir_absent",
          "fault_fired", "fault_run_failed", "settings_affecting_content"]

FAULT_KINDS = [("open_w", "ENOSPC"), ("open_w", "EACCES"), ("write", "ENOSPC"), ("close_w", "EIO"),
               ("mkdir", "EACCES"), ("mkdir", "ENOSPC"), ("mkdir", "RACE"), ("open_r", "EIO")]
UNDOC = ["include_undocumented_function", "include_undocumented_macro", "include_undocumented_cpp_class",
         "include_undocumented_option", "include_undocumented_ct_add_test", "include_undocumented_add_test"]


def swarm(rng, tier):
    return {
        "mode": rng.choice(["o", "o", "stdout", "mixed"]),
        "faults": rng.random() < 0.3,
        "tree": rng.choice(["wide", "deep", "small"]),
        "variants": 2,
        "rst_opts": rng.random() < 0.5,
        "config_dir_absent": rng.random() < 0.15,
        "single_inputs": rng.random() < 0.4,
        "symlinks": rng.random() < 0.3,
        "crlf": rng.random() < 0.3,
    }


def strategy(cfg):
    tree_kw = dict(c13.TREE_KW[cfg["tree"]])

    @st.composite
    def world(draw):
        auto = draw(st.sampled_from([True, True, False]))
        site = gen.draw_site(draw, loc_pool=c13.SAFE_LOC, tree_kw=tree_kw, auto_exclude=auto)
        recursive = draw(st.sampled_from([True, True, False]))
        if cfg.get("crlf"):
            for rel_ in sorted(site.tree):
                c_ = site.tree[rel_]
                if isinstance(c_, str) and refs.is_cmake(rel_) and draw(st.booleans()):
                    site.tree[rel_] = c_.replace("\n", "\r\n")       # a module saved with CRLF line ends
        absent = cfg["config_dir_absent"] and draw(st.booleans())
        files = gen.base_files(site, config_dir_exists=not absent)
        files["cfg"] = None
        symlinks = cfg.get("symlinks") and draw(st.booleans())
        if symlinks:
            # a module that lives outside the tree and is linked into it, and a symlinked way to reach the input
            files["elsewhere/shared_src.cmake"] = "function(zqshared a)\nendfunction()\n"
            files[posixpath.join(site.proj, "zz_link.cmake")] = {"symlink": "{BASE}/elsewhere/shared_src.cmake"}
            files["linkroot"] = {"symlink": "{BASE}/" + site.rel if site.rel else "{BASE}"}
        mode = cfg["mode"] if cfg["mode"] != "mixed" else draw(st.sampled_from(["o", "stdout"]))
        cm_files = sorted(f for f in refs.tree_files(site.tree) if refs.is_cmake(f))
        input_kind = "dir"
        input_file = None
        if cfg["single_inputs"] and cm_files and draw(st.booleans()):
            input_kind = "file"
            input_file = posixpath.join(site.proj, draw(st.sampled_from(cm_files)))
        dirs = sorted(d for d in refs.tree_dirs(site.tree) if d)
        out_kind = draw(st.sampled_from(["sibling", "abs", "nested_new", "nested_deep", "parent", "new_ancestors",
                                         "sibling"]))
        if out_kind == "nested_new":
            out = posixpath.join(site.proj, "zz_out")
            if draw(st.booleans()):
                # siblings whose names merely start like the output directory's
                for rel_ in ("zz_out-notes/n9.cmake", "zz_out2/n8.cmake"):
                    text_ = "#[[[\n# Sibling of the output directory.\n#]]\nfunction(zq_sibling_" + rel_[-7:-6] + " a)\nendfunction()\n"
                    site.tree[posixpath.dirname(rel_)] = None
                    site.tree[rel_] = text_
                    files[posixpath.join(site.proj, posixpath.dirname(rel_))] = None
                    files[posixpath.join(site.proj, rel_)] = text_
        elif out_kind == "nested_deep" and dirs and auto:
            # only with auto-exclusion on: otherwise the walk descends into its own output for ever (DESIGN.md, C13 note)
            out = posixpath.join(site.proj, draw(st.sampled_from(dirs)), "gen")
        elif out_kind == "parent" and site.rel:
            out = site.rel
        elif out_kind == "new_ancestors":
            out = posixpath.join(site.rel, "n1x", "n2x", "out") if site.rel else "n1x/n2x/out"
        else:
            out_kind = "abs" if out_kind == "abs" else "sibling"
            out = posixpath.join(site.rel, "out") if site.rel else "out"
        prepop = {}
        if out_kind in ("sibling", "abs") and draw(st.booleans()):
            prepop[posixpath.join(out, "keep.txt")] = "unrelated, must survive\n"
            prepop[posixpath.join(out, "notes/readme.md")] = "unrelated too\n"
            prepop[posixpath.join(out, "zz-handwritten-overview.rst")] = "Hand written\n============\n"
            if cm_files:
                f_ = draw(st.sampled_from(cm_files))
                prepop[posixpath.join(out, refs.stem(f_) + ".rst.tmp")] = "an editor's unrelated scratch copy zz-\n"
            prepop[posixpath.join(out, "index.rst.tmp")] = "unrelated zz-\n"
            if dirs and draw(st.booleans()):
                prepop[posixpath.join(out, dirs[0], "zz-design-notes.rst")] = "Design notes, not generated\n"
            if draw(st.booleans()) and cm_files:
                f = draw(st.sampled_from(cm_files))
                prepop[posixpath.join(out, refs.stem(f) + ".rst")] = "stale page from an earlier run\n"
        prefix = draw(st.sampled_from([None, None, "pfx", "My.Pkg"]))
        rst, input_opts = {}, {}
        if cfg["rst_opts"]:
            if draw(st.booleans()):
                rst["file_extensions_in_titles"] = True
            hd = draw(st.sampled_from(c13.HEADERS))
            if hd is not None:
                rst["headers"] = hd
            for k in UNDOC:
                if draw(st.integers(0, 3)) == 0:
                    input_opts[k] = False
        variants = []
        cwds = sorted({"", site.rel, "elsewhere", site.proj})
        for vi in range(cfg["variants"]):
            key, explicit = gen.listing_schedule(draw, [""], site.tree, prefix=site.proj)
            cwd = draw(st.sampled_from(cwds))
            target = input_file or site.proj
            inp_spelled = gen.spell(draw, cwd, target, is_dir=input_kind == "dir")
            if symlinks and draw(st.booleans()):
                inp_spelled = "{BASE}/linkroot/" + (target[len(site.rel) + 1:] if site.rel else target)
            v = {"cwd": cwd, "input": inp_spelled,
                 "output": "{BASE}/" + out if out_kind == "abs" else gen.spell(draw, cwd, out, is_dir=False,
                                                                               allow_abs=False),
                 "listing_key": key, "listing_explicit": explicit, "prefix_src": draw(st.integers(0, 2)), "faults": [],
                 # where the output directory is named: -o, or output.directory of the -s file
                 "out_src": draw(st.sampled_from(["cli", "cli", "sfile"]))}
            if cfg["faults"] and draw(st.booleans()):
                n = draw(st.integers(1, 2))
                for _ in range(n):
                    seam, err = draw(st.sampled_from(FAULT_KINDS))
                    v["faults"].append({"seam": seam, "errno": err, "nth": draw(st.integers(1, 5))})
            variants.append(v)
        return {"files": files, "proj": site.proj, "out": out, "out_kind": out_kind, "prepop": prepop, "mode": mode,
                "input_kind": input_kind, "input_file": input_file, "patterns": [], "recursive": recursive,
                "auto_exclude": auto, "prefix": prefix, "rst": rst, "input_opts": input_opts,
                "config_dir_absent": absent, "variants": variants}
    return world()


def setup_argv(spec, var, with_o, out_override=None):
    sfile_in = dict(spec.get("input_opts") or {})
    user_rst = {}
    argv = []
    if not spec["auto_exclude"]:
        sfile_in["auto_exclude_directories_without_cmake"] = False
    rst = dict(spec.get("rst") or {})
    if spec["prefix"] is not None:
        if var["prefix_src"] == 0:
            argv += ["-p", spec["prefix"]]
        elif var["prefix_src"] == 1:
            rst["prefix"] = spec["prefix"]
        else:
            user_rst["prefix"] = spec["prefix"]
    if spec["recursive"] and spec["input_kind"] == "dir":
        argv.append("-r")
    overlay = {}
    out_opts = None
    if with_o and var.get("out_src") == "sfile" and not out_override:
        out_opts = {"directory": var["output"]}
    s_text = build_config(None, sfile_in, rst, out_opts)
    u_text = build_config(None, None, user_rst)
    if s_text:
        overlay["cfg/s.yaml"] = s_text
        argv += ["-s", "{BASE}/cfg/s.yaml"]
    if u_text:
        overlay["home/.config/cminx/config.yaml"] = u_text
    if with_o and out_opts is None:
        argv += ["-o", out_override or var["output"]]
    argv.append(var["input"])
    return overlay, argv


CONFIG_DIR = "home/.config/cminx"


def split_stdout(stdout, pages):
    """Partition stdout into blocks page+T, T in {'\\n', '\\n\\n'}.  -> list of page keys or None."""
    keys = sorted(pages, key=lambda k: (-len(pages[k]), k))
    n = len(stdout)
    dead = set()

    def go(i, used):
        if i == n:
            return [] if len(used) == len(pages) else None
        state = (i, used)
        if state in dead:
            return None
        for k in keys:
            if k in used:
                continue
            p = pages[k]
            if stdout.startswith(p, i):
                for t in ("\n\n", "\n"):
                    if stdout.startswith(t, i + len(p)):
                        rest = go(i + len(p) + len(t), used | {k})
                        if rest is not None:
                            return [k] + rest
        dead.add(state)
        return None
    return go(0, frozenset())


def order_ok(seq, sources):
    """Blocks of one directory contiguous and in sorted file-name order (case-sensitively or not)."""
    by_dir, pos = {}, {}
    for i, k in enumerate(seq):
        by_dir.setdefault(posixpath.dirname(k), []).append(k)
        pos[k] = i
    for d, ks in by_dir.items():
        idx = [pos[k] for k in ks]
        if max(idx) - min(idx) + 1 != len(ks):
            return False, f"pages of directory {d!r} are not contiguous"
        names = [sources.get(k, k) for k in ks]
        ok = names == sorted(names) or names == sorted(names, key=lambda n: (n.lower(), n))
        if not ok:
            return False, f"pages of directory {d!r} are printed in order {names}"
    return True, ""


def evaluate(spec, ctx):
    viols = []
    base = core.new_base()
    try:
        core.materialise(base, spec["files"])
        tree = c13.tree_of(spec)
        out = spec["out"]
        mode = spec["mode"]
        ctx.probes["mode_" + mode] += 1
        for k, p in (("nested_deep", "out_nested_deep"), ("parent", "out_parent"), ("new_ancestors", "out_new_ancestors"),
                     ("abs", "out_abs")):
            if spec["out_kind"] == k and mode == "o":
                ctx.probes[p] += 1
        if mode == "o" and any(not v["output"].startswith("{BASE}") for v in spec["variants"]):
            ctx.probes["out_rel"] += 1
        if spec["prepop"] and mode == "o":
            ctx.probes["out_prepopulated"] += 1
            if any(k.endswith(".rst") for k in spec["prepop"]):
                ctx.probes["out_stale_page"] += 1
        if spec["input_kind"] == "file":
            ctx.probes["single_file_input"] += 1
        if any(isinstance(c, str) and "\r\n" in c for c in spec["files"].values()):
            ctx.probes["module_with_crlf"] += 1
        if any("/." in "/" + k for k in tree):
            ctx.probes["hidden_directory"] += 1
        if any(isinstance(c, dict) for c in spec["files"].values()):
            ctx.probes["symlinked_module"] += 1
        if any("linkroot" in v["input"] for v in spec["variants"]):
            ctx.probes["input_through_symlink"] += 1
        if mode == "o" and any(v.get("out_src") == "sfile" for v in spec["variants"]):
            ctx.probes["output_dir_from_settings_file"] += 1
        if spec["config_dir_absent"]:
            ctx.probes["config_dir_absent"] += 1
        if spec.get("rst") or spec.get("input_opts") or spec["prefix"]:
            ctx.probes["settings_affecting_content"] += 1
        for vi, var in enumerate(spec["variants"]):
            where = f"variant {vi}"
            # fresh state for every variant
            remove_outputs(base, ["cfg/s.yaml", "home/.config/cminx/config.yaml", "ref_out"])
            if not (spec["out_kind"] == "parent"):
                remove_outputs(base, [out])
            else:
                _clean_parent(base, spec)
            if spec["out_kind"] == "new_ancestors":
                remove_outputs(base, [posixpath.dirname(posixpath.dirname(out))])
            if spec["config_dir_absent"]:
                remove_outputs(base, ["home/.config"])
            core.materialise(base, spec["prepop"] if mode == "o" else {})
            overlay, argv = setup_argv(spec, var, with_o=(mode == "o"))
            core.materialise(base, {k: v.replace("{BASE}", base) for k, v in overlay.items()})
            call = {"cwd": var["cwd"], "argv": argv, "listing_key": var["listing_key"],
                    "listing_explicit": var["listing_explicit"], "faults": var.get("faults", [])}
            res = core.run_call(base, call)
            ctx.note_call(res)
            for f in var.get("faults", []):
                ctx.faults_planned[f["seam"] + ":" + f["errno"]] += 1
            if res.fired:
                ctx.probes["fault_fired"] += 1
                if res.status != 0:
                    ctx.probes["fault_run_failed"] += 1
            err_faults = [f for f in res.fired if f["errno"] != "RACE"]
            nontriv = bool(res.fired) or (mode == "o" and (spec["prepop"] or spec["out_kind"] not in ("sibling",)
                                                            or not var["output"].startswith("{BASE}")))
            if mode == "o":
                allowed = [out]
                # ancestors of the output directory that did not exist before may be created on the way
                anc = posixpath.dirname(out)
                while anc and anc not in res.before:
                    allowed.append(anc + "/__exactly__")
                    anc = posixpath.dirname(anc)
                viols += _containment(res, spec, allowed, where, out)
                if not err_faults and res.status != 0:
                    viols.append(viol("run-failed", f"{where}: status {res.status} exc {res.exc}"))
                # unrelated pre-existing files in the output directory are untouched
                for k, v in spec["prepop"].items():
                    if k.endswith(".rst") and "zz-" not in k and "zz-" not in v:
                        continue        # a stale page named like a generated one may be overwritten
                    if k in res.deleted or k in res.changed:
                        viols.append(viol("unrelated-output-file-touched", f"{where}: {k} was changed or deleted"))
            else:
                muts = [e for e in res.events if e[1] in ("mkdir", "write", "close", "os.open") + core.Sim.MUTATORS
                        or (e[1] == "open" and any(c in str(e[3]) for c in "wax+"))]
                for e in muts:
                    if e[1] == "mkdir" and e[2] in res.before:
                        continue        # makedirs probing an existing directory: nothing changes
                    if e[1] == "mkdir" and e[2] == CONFIG_DIR:
                        viols.append(viol("effect-outside-output", f"{where}: mkdir {e[2]} ({e[4]}) in stdout mode",
                                          target="user-config-dir", op="mkdir"))
                    elif e[1] == "mkdir" and e[2] == posixpath.dirname(CONFIG_DIR) and spec["config_dir_absent"]:
                        viols.append(viol("effect-outside-output", f"{where}: mkdir {e[2]} in stdout mode",
                                          target="user-config-dir", op="mkdir"))
                    else:
                        viols.append(viol("effect-outside-output", f"{where}: {e[1]} {e[2]} {e[3]} in stdout mode",
                                          target="other", op=e[1]))
                eff = effects_outside(res, [])
                eff = [x for x in eff if not (x[1] in (CONFIG_DIR, posixpath.dirname(CONFIG_DIR)) and x[0] == "created")]
                if eff:
                    viols.append(viol("effect-outside-output", f"{where}: file system changed in stdout mode: {eff[:5]}",
                                      target="other", op="snapshot"))
                if not err_faults:
                    if res.status != 0:
                        viols.append(viol("run-failed", f"{where}: status {res.status} exc {res.exc}"))
                    else:
                        # the same invocation with -o added, same listing schedule
                        # (into the world's own output placement where that is a new directory inside the input tree,
                        #  otherwise into a directory beside everything)
                        twin_out = out if spec["out_kind"] == "nested_new" else "ref_out"
                        overlay2, argv2 = setup_argv(spec, var, with_o=True, out_override="{BASE}/" + twin_out)
                        r2 = core.run_call(base, dict(call, argv=argv2, faults=[]))
                        ctx.note_call(r2)
                        ref = core.read_tree(base, twin_out)
                        if twin_out == out:
                            ctx.probes["stdout_twin_nested_in_input"] += 1
                            remove_outputs(base, [out])
                        pages = {k: v for k, v in ref.items() if posixpath.basename(k) != "index.rst"}
                        if r2.status != 0:
                            viols.append(viol("run-failed", f"{where}: -o twin run status {r2.status} exc {r2.exc}"))
                        else:
                            nontriv = nontriv or len(pages) >= 2
                            if len(pages) >= 2:
                                ctx.probes["stdout_ge_2_pages"] += 1
                            if len({posixpath.dirname(k) for k in pages}) >= 2:
                                ctx.probes["stdout_multi_dir"] += 1
                            seq = split_stdout(res.stdout, pages)
                            if seq is None:
                                viols.append(viol("stdout-not-exactly-the-pages",
                                                  f"{where}: stdout ({len(res.stdout)} chars) is not a concatenation of the "
                                                  f"{len(pages)} pages written with -o, each followed by an empty line; "
                                                  f"head {res.stdout[:120]!r}"))
                            else:
                                sources = _page_sources(tree, spec)
                                ok, why = order_ok(seq, sources)
                                if not ok:
                                    viols.append(viol("stdout-order", f"{where}: {why}"))
            ctx.note_case(core.spec_digest([tree, mode, out, spec["prepop"], argv, var["listing_key"],
                                            var["listing_explicit"], var.get("faults")]), bool(nontriv))
            if viols:
                break
        # --- the Python API with the output directory spelled through a symbolic link and '..' (the CLI never passes
        #     such a spelling on: confuse collapses it textually first).  The directory requested is the one the
        #     operating system resolves: <target of uplink>/../apidocs.  Judged on the before/after snapshots only.
        if not viols and mode == "o" and spec["input_kind"] == "dir" and "linkroot" in spec["files"]:
            core.materialise(base, {"elsewhere/store/deep": None,
                                    "uplink": {"symlink": "{BASE}/elsewhere/store/deep"}})
            want_dir = "elsewhere/store/apidocs"
            cminx = core.import_cminx()
            rec = bool(spec["recursive"])

            def entry(argv, _cm=cminx):
                st_ = _cm.Settings()
                st_.input.recursive = rec
                st_.output.directory = argv[1]
                _cm.document(argv[0], st_)
            r9 = core.run_call(base, {"cwd": "", "argv": [base + "/" + spec["proj"], base + "/uplink/../apidocs"],
                                      "listing_key": 0}, entry=entry)
            ctx.note_call(r9)
            ctx.probes["api_output_through_symlink_dotdot"] += 1
            if r9.status != 0:
                viols.append(viol("run-failed", f"API call with output uplink/../apidocs: status {r9.status} exc {r9.exc}"))
            for kind, rel in effects_outside(r9, []):
                if not (rel == want_dir or rel.startswith(want_dir + "/")):
                    viols.append(viol("effect-outside-output", f"API call, output directory spelled <symlink>/../apidocs "
                                      f"(= {want_dir}): snapshot shows {kind} {rel}", target="other", op="snapshot"))
                    break
            remove_outputs(base, [want_dir, "apidocs"])
    finally:
        core.drop_base(base)
    return _dedup(viols)


def _dedup(viols):
    seen, out = set(), []
    for v in viols:
        k = tuple(sorted(v["sig"].items()))
        if k not in seen:
            seen.add(k)
            out.append(v)
    return out


def _page_sources(tree, spec):
    out = {}
    for f in refs.tree_files(tree):
        if refs.is_cmake(f):
            out[refs.stem(f) + ".rst"] = posixpath.basename(f)
    return out


def _clean_parent(base, spec):
    """Output dir is the parent of the input: remove everything in it except the input tree."""
    import os
    root = os.path.join(base, spec["out"])
    keep = posixpath.basename(spec["proj"])
    for n in os.listdir(root):
        if n != keep:
            remove_outputs(base, [posixpath.join(spec["out"], n)])


def _containment(res, spec, allowed, where, out):
    viols = []
    exact = {a[:-len("/__exactly__")] for a in allowed if a.endswith("/__exactly__")}
    prefixes = [a for a in allowed if not a.endswith("/__exactly__")]

    def inside(rel):
        return rel in exact or any(rel == a or rel.startswith(a + "/") for a in prefixes)

    proj = spec["proj"]
    out_in_proj = out == proj or out.startswith(proj + "/")
    for e in res.events:
        op, rel = e[1], e[2]
        mut = op in ("mkdir", "os.open") + core.Sim.MUTATORS or (op == "open" and any(c in str(e[3]) for c in "wax+"))
        if not mut:
            continue
        if op == "mkdir" and (e[4].startswith("ERR:EEXIST") or rel in res.before):
            continue            # makedirs(exist_ok) probing an existing directory changes nothing
        if inside(rel):
            # rename/replace/remove inside the output directory is legal (atomic page writes); what must survive is
            # checked through the snapshots (unrelated pre-existing files byte-identical)
            if op in ("rename", "replace", "link", "symlink") and e[3] and not all(inside(x) for x in e[3]):
                viols.append(viol("effect-outside-output", f"{where}: {op} {rel} -> {e[3]}", target="other", op=op))
            continue
        if op == "mkdir" and rel in (CONFIG_DIR, posixpath.dirname(CONFIG_DIR)):
            viols.append(viol("effect-outside-output", f"{where}: mkdir {rel} ({e[4]})", target="user-config-dir", op="mkdir"))
        else:
            viols.append(viol("effect-outside-output", f"{where}: {op} {rel} {e[3]} ({e[4]})", target="other", op=op))
    for kind, rel in effects_outside(res, []):
        if inside(rel):
            # inside the output directory; but the input tree itself (when the output dir is a parent of it) is off limits
            if not out_in_proj and (rel == proj or rel.startswith(proj + "/")):
                viols.append(viol("input-tree-modified", f"{where}: {kind} {rel}"))
            continue
        if rel in (CONFIG_DIR, posixpath.dirname(CONFIG_DIR)) and kind == "created":
            continue        # reported through the event above with its call site
        viols.append(viol("effect-outside-output", f"{where}: snapshot shows {kind} {rel}", target="other", op="snapshot"))
    return viols


MANIFEST = {
    "engine": "E1 simworld",
    "design_ref": "DESIGN.md section 3 (C18), section 2",
    "technique": "deterministic simulation: every mutating file-system call interposed and checked per event against the "
                 "requested output directory, before/after snapshots of the whole sandbox, stdout vs. the -o twin run; I/O "
                 "fault plans keep the containment invariant under failures",
    "level_text": "Seeded exploration with effect monitoring: per-event containment invariant on mkdir/open-for-write/remove/"
                  "rename/... , whole-sandbox snapshot diff (catches effects through any API), untouched unrelated files in "
                  "pre-populated output directories, and for stdout mode: no mutating call at all and stdout exactly the "
                  "concatenation of the pages the same invocation writes with -o (sorted within a directory).  Fault shards "
                  "inject ENOSPC/EACCES/EIO and mkdir races; containment must hold on failing runs too.  A nested output directory "
                  "may have siblings whose names start like its own, and the -o twin of a stdout run is then written into that "
                  "nested placement.  In worlds with symbolic links one Python API call spells the output directory <symlink>/../apidocs: "
                  "everything it creates must lie below the directory the operating system resolves.",
    "level_note": "trusted: interposers see calls made through os/builtins/io attributes (snapshot diff backs them up inside the "
                  "sandbox); HOME/TMPDIR/XDG_* point into the sandbox so stray writes land where the snapshot sees them",
}
