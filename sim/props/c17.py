"""C17 - output is a function of contents, relative paths and settings only.

Histories in one long-lived interpreter: the same logical worlds are documented
repeatedly under different working directories, absolute locations, listing
schedules, neighbours (other inputs before/after in the same call), entry
points (CLI main, cminx.document, Documenter) and - through a persistent helper
interpreter - another PYTHONHASHSEED.  After every step every page produced so
far must be byte-identical to the first one produced for that (world, mode,
relative path).

Replay spec: {"worlds": [{"name", "tree"}], "prefix", "patterns",
 "ops": [{"op": run|run_file|run_files|run_many|stdout|api|documenter|companion, "w", "f", "loc", "cwd", "abs", "key",
          "keep_out", "fault", "ws"?}]}
"""
import atexit
import json
import os
import posixpath
import subprocess
import sys

from hypothesis import strategies as st

from .. import core, gen, refs
from . import c13
from .common import E1_ASSUMPTIONS, E1_COMPONENTS, remove_outputs, viol

ID = "C17"
LEVEL = "exploration"
TIERS = {
    "quick": {"shards": 128, "examples": 32, "det_shards": 2},
    "thorough": {"shards": 2048, "examples": 40, "det_shards": 8},
}
RULE = ("case = history: 1-3 small worlds and <= 8 operations (run / run_many with the world of interest first, last or in "
        "the middle / stdout run / API run through cminx.document / Documenter run / companion run under another "
        "PYTHONHASHSEED), each with its own location, cwd, input spelling and listing schedule; non-trivial iff some world is "
        "produced >= 2 times under different placement, schedule, neighbours, entry point order or hash seed; distinct by "
        "sha256(history)")
COMPONENTS = dict(E1_COMPONENTS, stub=[])
COMPONENTS["real"] = E1_COMPONENTS["real"] + ["a second persistent interpreter (sim/companion.py) running the same real code "
                                                "under PYTHONHASHSEED=98765 (workers themselves run under 0 and 4242)"]
ASSUMPTIONS = E1_ASSUMPTIONS + [
    "runs through the Python API use dataclass defaults that differ from config_default.yaml (kwargs trigger string), so API "
    "pages are compared with API pages only, CLI pages with CLI pages",
    "in a multi-input call all inputs share the output directory: the top-level index.rst is excluded from comparison, and the "
    "worlds of one history use disjoint top-level names",
    "output directories are never inside the input tree here"]
PROBES = ["parameter_strip_pattern_set", "transient_listing_fault", "output_dir_reused", "op_run", "op_run_files", "op_run_file", "op_run_many", "op_stdout", "op_api", "op_documenter", "op_companion", "relocated", "cwd_changed",
          "listing_key_changed", "world_of_interest_first", "world_of_interest_last", "world_of_interest_middle",
          "default_prefix", "explicit_prefix", "repeat_same_world_ge_3", "companion_hashseed_differs"]

LOCS = ["la", "lb/deep", "lc/x/y", "proj0/co"]      # the last one: an ancestor named like world 0's input directory
COMPANION_HASHSEED = "98765"
_companion = None


def companion():
    global _companion
    if _companion is None or _companion.poll() is not None:
        env = dict(os.environ)
        env["PYTHONHASHSEED"] = COMPANION_HASHSEED
        _companion = subprocess.Popen([sys.executable, os.path.join(os.path.dirname(os.path.dirname(__file__)), "companion.py")],
                                      stdin=subprocess.PIPE, stdout=subprocess.PIPE, stderr=subprocess.DEVNULL,
                                      text=True, env=env, bufsize=1)
        atexit.register(_stop_companion)
    return _companion


def _stop_companion():
    global _companion
    if _companion is not None and _companion.poll() is None:
        try:
            _companion.stdin.write(json.dumps({"quit": True}) + "\n")
            _companion.stdin.flush()
            _companion.wait(timeout=5)
        except Exception:
            _companion.kill()
    _companion = None


def swarm(rng, tier):
    return {
        "worlds": rng.choice([1, 2, 3]),
        "ops": 6 if tier == "quick" else 8,
        "companion": rng.random() < 0.5,
        "api": rng.random() < 0.5,
        "prefix": rng.choice([None, None, "pfx"]),
        "patterns": rng.random() < 0.3,
        "classes": rng.random() < 0.5,
        "duplicates": rng.random() < 0.4,
        "sig_twins": rng.random() < 0.4,
    }


def strategy(cfg):
    @st.composite
    def world(draw):
        worlds = []
        for i in range(cfg["worlds"]):
            raw = gen.draw_tree(draw, max_depth=2, max_files=2, max_subdirs=2, max_cmds=2, budget=3,
                                duplicates=cfg.get("duplicates", False))
            gen.add_numeric_twins(draw, raw)
            gen.fix_for_auto_exclude(raw)
            tree = {}
            for rel, c in raw.items():
                parts = rel.split("/")
                parts[0] = f"w{i}_" + parts[0]
                tree["/".join(parts)] = c
            if cfg.get("classes"):
                # a module whose rendering walks several collections (bases, members, attributes, sections)
                from .. import cmakegen
                desc = {"mod": None, "cmds": [{"k": cmakegen.KINDS.index("class"), "doc": 1, "v": 1 | 4 | draw(st.integers(0, 7)) * 8,
                                               "n": draw(st.integers(0, 8))},
                                              {"k": cmakegen.KINDS.index("ct_test"), "doc": 1, "v": draw(st.integers(0, 3)), "n": 2}]}
                tree[f"w{i}_classes.cmake"] = cmakegen.render(desc, f"c{i}").text
            if cfg.get("sig_twins"):
                # the same parameter list on several definitions, in several files and worlds; only some collect keyword
                # arguments.  Together with a parameter-name strip pattern (below) this exercises per-signature state.
                tree[f"w{i}_siga.cmake"] = (f"#[[[\n# Plain zqsa{i}.\n#]]\nfunction(zqsiga{i} name_in kind_in)\nendfunction()\n"
                                           f"#[[[\n# Plain macro zqsm{i}.\n#]]\nmacro(zqsigm{i} name_in kind_in)\nendmacro()\n")
                tree[f"w{i}_sigz.cmake"] = (f"#[[[\n# Keyword zqsz{i}.\n#]]\nfunction(zqsigz{i} name_in kind_in)\n"
                                           f"    cmake_parse_arguments(zq \"\" \"OPT\" \"\" ${{ARGN}})\nendfunction()\n"
                                           f"#[[[\n# Keyword macro zqsy{i}.\n#]]\nmacro(zqsigy{i} name_in kind_in)\n"
                                           f"    cmake_parse_arguments(zq \"\" \"OPT\" \"\" ${{ARGN}})\nendmacro()\n")
            worlds.append({"name": f"proj{i}", "tree": tree})
        ops = []
        kinds = ["run", "run", "run", "stdout", "run_file", "run_files"]
        if cfg["worlds"] > 1:
            kinds += ["run_many", "run_many"]
        if cfg["api"]:
            kinds += ["api", "documenter"]
        if cfg["companion"]:
            kinds += ["companion", "companion"]
        n = draw(st.integers(2, cfg["ops"]))
        for _ in range(n):
            k = draw(st.sampled_from(kinds))
            w = draw(st.integers(0, cfg["worlds"] - 1))
            op = {"op": k, "w": w, "f": draw(st.integers(0, 5)), "keep_out": draw(st.integers(0, 3)) == 0, "fault": draw(st.integers(0, 5)) == 0,
                  "loc": draw(st.sampled_from(LOCS)),
                  "cwd": draw(st.sampled_from(["", "loc", "proj", "elsewhere"])),
                  "abs": draw(st.booleans()), "key": draw(st.integers(0, 30))}
            if k == "run_many":
                others = [x for x in range(cfg["worlds"]) if x != w]
                order = draw(st.permutations(others))
                pos = draw(st.integers(0, len(order)))
                op["ws"] = list(order[:pos]) + [w] + list(order[pos:])
            ops.append(op)
        pats = []
        if cfg["patterns"]:
            names = sorted({posixpath.basename(r) for wd in worlds for r in wd["tree"]})
            pats = draw(st.lists(st.sampled_from(names), max_size=2, unique=True))
            if names and draw(st.booleans()):
                # a pair whose effect depends on the ORDER of the patterns (gitignore: the last match wins)
                keep = draw(st.sampled_from(names))
                pats = pats + [keep[:1] + "*", "!" + keep]
        return {"worlds": worlds, "ops": ops, "prefix": cfg["prefix"], "patterns": pats,
                "strip": bool(cfg.get("sig_twins")) and draw(st.booleans())}
    return world()


def _files(spec):
    files = gen.base_files(None)
    for loc in LOCS:
        for wd in spec["worlds"]:
            root = posixpath.join(loc, wd["name"])
            files[root] = None
            for rel, c in wd["tree"].items():
                files[posixpath.join(root, rel)] = c
    return files


def _spell(op, target):
    cwd = {"": "", "loc": op["loc"], "proj": target, "elsewhere": "elsewhere"}[op["cwd"]]
    arg = "{BASE}/" + target if op["abs"] else posixpath.relpath(target, cwd or ".")
    return cwd, arg


def _split_by_world(pages, nworlds):
    out = {i: {} for i in range(nworlds)}
    for k, v in pages.items():
        top = k.split("/")[0]
        if k == "index.rst":
            continue
        for i in range(nworlds):
            if top.startswith(f"w{i}_"):
                out[i][k] = v
    return out


def evaluate(spec, ctx):
    viols = []
    base = core.new_base()
    cminx = core.import_cminx()
    try:
        files = _files(spec)
        core.materialise(base, files)
        first = {}       # (world, mode) -> (op index, {rel: text})
        seen_variants = {}
        nworlds = len(spec["worlds"])
        ctx.probes["default_prefix" if spec["prefix"] is None else "explicit_prefix"] += 1
        extra = []
        if spec["prefix"] is not None:
            extra += ["-p", spec["prefix"]]
        for p in spec["patterns"]:
            extra += ["-e", p]
        if spec.get("strip"):
            core.materialise(base, {"cfg17.yaml": "input:\n  function_parameter_name_strip_regex: \"_in$\"\n"
                                                  "  macro_parameter_name_strip_regex: \"_in$\"\n"})
            extra += ["-s", "{BASE}/cfg17.yaml"]
            ctx.probes["parameter_strip_pattern_set"] += 1

        def record(i, mode, opi, pages, op):
            key = (i, mode)
            var = (op["loc"], op["cwd"], op["abs"], op["key"], op["op"], tuple(op.get("ws", ())))
            seen_variants.setdefault(key, set()).add(var)
            if key not in first:
                first[key] = (opi, pages, op)
                return
            opi0, pages0, op0 = first[key]
            if pages != pages0:
                diff = sorted(k for k in set(pages) | set(pages0) if pages.get(k) != pages0.get(k))
                what = []
                for a in ("loc", "cwd", "abs", "key", "op"):
                    if op.get(a) != op0.get(a):
                        what.append(a)
                if op.get("ws") != op0.get("ws"):
                    what.append("neighbours")
                viols.append(viol("output-depends-on-history-or-placement",
                                  f"world {i} ({mode}) step {opi} vs step {opi0}: {len(diff)} file(s) differ, e.g. {diff[:3]}; "
                                  f"steps differ in {what or ['nothing but order in the history']}; "
                                  f"first differing line: {_first_diff(pages0.get(diff[0]), pages.get(diff[0]))}",
                                  varies=",".join(what) or "history", cause=anc_cause))

        import fnmatch
        anc_cause = "other"
        for p in spec["patterns"]:
            if not p.startswith("!") and any(fnmatch.fnmatchcase(c, p) for loc in LOCS for c in loc.split("/")):
                anc_cause = "pattern-matches-ancestor"
        for opi, op in enumerate(spec["ops"]):
            ctx.probes["op_" + op["op"]] += 1
            w = op["w"]
            target = posixpath.join(op["loc"], spec["worlds"][w]["name"])
            cwd, arg = _spell(op, target)
            if op.get("keep_out") and op["op"] in ("run", "run_file", "run_files"):
                ctx.probes["output_dir_reused"] += 1      # whatever the previous step wrote stays in the way
                if op.get("f", 0) % 2:
                    # ... after an editor converted it to CRLF line ends
                    outd = os.path.join(base, "out")
                    for dp, _dn, fns in os.walk(outd):
                        for fn in fns:
                            pth = os.path.join(dp, fn)
                            with open(pth, "rb") as fh:
                                data = fh.read()
                            with open(pth, "wb") as fh:
                                fh.write(data.replace(b"\r\n", b"\n").replace(b"\n", b"\r\n"))
            else:
                remove_outputs(base, ["out"])
            if op["op"] == "run":
                faults = []
                if op.get("fault"):
                    # a transient failure when the auto-exclusion probe lists one top-level subdirectory: the run may
                    # fail loudly; if it claims success its files must be the same as ever
                    tops = sorted(d for d in refs.tree_dirs(spec["worlds"][w]["tree"]) if d and "/" not in d)
                    if tops:
                        faults = [{"seam": "scandir", "errno": "EIO",
                                   "path": posixpath.join(target, tops[op.get("f", 0) % len(tops)])}]
                res = core.run_call(base, {"cwd": cwd, "argv": ["-r", "-o", "{BASE}/out"] + extra + [arg],
                                           "listing_key": op["key"], "faults": faults}, snap=False)
                ctx.note_call(res)
                if res.fired:
                    ctx.probes["transient_listing_fault"] += 1
                    if res.status != 0:
                        continue        # failed loudly: nothing to compare
                if res.status != 0:
                    viols.append(viol("run-failed", f"step {opi}: status {res.status} exc {res.exc}"))
                    break
                pages = core.read_tree(base, "out")
                if op.get("keep_out"):
                    # leftovers of other worlds / entry points are not this run's business: keep this world's files
                    pages = {k: v for k, v in pages.items() if k == "index.rst" or k.split("/")[0].startswith(f"w{w}_")}
                record(w, "cli", opi, pages, op)
                record(w, "cli-noindex", opi, {k: v for k, v in pages.items() if k != "index.rst"}, op)
            elif op["op"] == "run_file":
                cmf = sorted(f for f in refs.tree_files(spec["worlds"][w]["tree"]) if refs.is_cmake(f))
                if not cmf:
                    continue
                rel = cmf[op.get("f", 0) % len(cmf)]
                ftarget = posixpath.join(target, rel)
                fcwd = {"": "", "loc": op["loc"], "proj": posixpath.dirname(ftarget), "elsewhere": "elsewhere"}[op["cwd"]]
                farg = "{BASE}/" + ftarget if op["abs"] else posixpath.relpath(ftarget, fcwd or ".")
                res = core.run_call(base, {"cwd": fcwd, "argv": ["-o", "{BASE}/out"] + extra + [farg],
                                           "listing_key": op["key"]}, snap=False)
                ctx.note_call(res)
                if res.status != 0:
                    viols.append(viol("run-failed", f"step {opi} (single file): status {res.status} exc {res.exc}"))
                    break
                pname = refs.stem(posixpath.basename(rel)) + ".rst"
                got_pages = core.read_tree(base, "out")
                record(w, "file:" + rel, opi, {pname: got_pages[pname]} if pname in got_pages else {}, op)
            elif op["op"] == "run_files":
                # several lone files of the world in one call, each must come out as if documented alone
                wt = spec["worlds"][w]["tree"]
                cmf = sorted(f for f in refs.tree_files(wt) if refs.is_cmake(f))
                # byte-identical modules first: they are the ones that could share anything
                texts_ = [wt[f] for f in cmf]
                cmf = sorted(cmf, key=lambda f: (texts_.count(wt[f]) < 2, f))
                stems_seen, chosen = set(), []
                start = op.get("f", 0) if op.get("f", 0) % 2 else 0
                for j in range(len(cmf)):
                    rel = cmf[(start + j) % len(cmf)]
                    st_ = refs.stem(posixpath.basename(rel))
                    if st_ not in stems_seen and len(chosen) < 4:
                        stems_seen.add(st_)
                        chosen.append(rel)
                if len(chosen) < 2:
                    continue
                args = ["{BASE}/" + posixpath.join(target, rel) for rel in chosen]
                res = core.run_call(base, {"cwd": "", "argv": ["-o", "{BASE}/out"] + extra + args,
                                           "listing_key": op["key"]}, snap=False)
                ctx.note_call(res)
                if res.status != 0:
                    viols.append(viol("run-failed", f"step {opi} (several files): status {res.status} exc {res.exc}"))
                    break
                pages = core.read_tree(base, "out")
                for rel in chosen:
                    name = refs.stem(posixpath.basename(rel)) + ".rst"
                    record(w, "file:" + rel, opi, {name: pages[name]} if name in pages else {}, op)
            elif op["op"] == "stdout":
                res = core.run_call(base, {"cwd": cwd, "argv": ["-r"] + extra + [arg], "listing_key": op["key"]}, snap=False)
                ctx.note_call(res)
                if res.status != 0:
                    viols.append(viol("run-failed", f"step {opi}: status {res.status} exc {res.exc}"))
                    break
                record(w, "stdout", opi, {"<stdout>": res.stdout}, op)
            elif op["op"] == "run_many":
                args = []
                for x in op["ws"]:
                    t = posixpath.join(op["loc"], spec["worlds"][x]["name"])
                    args.append("{BASE}/" + t if op["abs"] else posixpath.relpath(t, cwd or "."))
                res = core.run_call(base, {"cwd": cwd, "argv": ["-r", "-o", "{BASE}/out"] + extra + args,
                                           "listing_key": op["key"]}, snap=False)
                ctx.note_call(res)
                if res.status != 0:
                    viols.append(viol("run-failed", f"step {opi}: status {res.status} exc {res.exc}"))
                    break
                parts = _split_by_world(core.read_tree(base, "out"), nworlds)
                pos = op["ws"].index(w)
                ctx.probes["world_of_interest_" + ("first" if pos == 0 else "last" if pos == len(op["ws"]) - 1 else "middle")] += 1
                for x in op["ws"]:
                    record(x, "cli-noindex", opi, parts[x], op)
            elif op["op"] == "api":
                def entry(argv, _cm=cminx):
                    s = _cm.Settings()
                    s.input.recursive = True
                    s.output.directory = argv[0]
                    s.rst.prefix = spec["prefix"]
                    s.input.exclude_filters = list(spec["patterns"])
                    _cm.document(argv[1], s)
                res = core.run_call(base, {"cwd": cwd, "argv": ["{BASE}/out", arg], "listing_key": op["key"]},
                                    entry=entry, snap=False)
                ctx.note_call(res)
                if res.status != 0:
                    viols.append(viol("run-failed", f"step {opi} (api): status {res.status} exc {res.exc}"))
                    break
                record(w, "api", opi, core.read_tree(base, "out"), op)
            elif op["op"] == "documenter":
                cm = sorted(f for f in refs.tree_files(spec["worlds"][w]["tree"]) if refs.is_cmake(f))
                texts = {}

                def entry(argv, _cm=cminx):
                    from cminx.documenter import Documenter
                    for f in cm:
                        texts[f] = Documenter(os.path.join(argv[0], f), "T-" + f, "M-" + f).process().to_text()
                res = core.run_call(base, {"cwd": cwd, "argv": [posixpath.join("{BASE}", target)], "listing_key": op["key"]},
                                    entry=entry, snap=False)
                ctx.note_call(res)
                if res.status != 0:
                    viols.append(viol("run-failed", f"step {opi} (documenter): status {res.status} exc {res.exc}"))
                    break
                record(w, "documenter", opi, texts, op)
            elif op["op"] == "companion":
                proc = companion()
                wd = spec["worlds"][w]
                cfiles = gen.base_files(None)
                cfiles[target] = None
                for rel, c in wd["tree"].items():
                    cfiles[posixpath.join(target, rel)] = c
                if spec.get("strip"):
                    cfiles["cfg17.yaml"] = ("input:\n  function_parameter_name_strip_regex: \"_in$\"\n"
                                            "  macro_parameter_name_strip_regex: \"_in$\"\n")
                req = {"files": cfiles, "out": "out",
                       "call": {"cwd": cwd if cwd != "elsewhere" else "elsewhere",
                                "argv": ["-r", "-o", "{BASE}/out"] + extra + [arg], "listing_key": op["key"]}}
                proc.stdin.write(json.dumps(req) + "\n")
                proc.stdin.flush()
                line = proc.stdout.readline()
                if not line:
                    raise RuntimeError("companion interpreter died")
                rep = json.loads(line)
                if "error" in rep:
                    raise RuntimeError("companion: " + rep["error"])
                ctx.runs += 1
                if rep.get("hashseed") != os.environ.get("PYTHONHASHSEED"):
                    ctx.probes["companion_hashseed_differs"] += 1
                if rep["status"] != 0:
                    viols.append(viol("run-failed", f"step {opi} (companion): status {rep['status']} exc {rep.get('exc')}"))
                    break
                record(w, "cli", opi, rep["pages"], dict(op, op="companion"))
                record(w, "cli-noindex", opi, {k: v for k, v in rep["pages"].items() if k != "index.rst"},
                       dict(op, op="companion"))
            if viols:
                break
        for key, vs in seen_variants.items():
            if len({v[0] for v in vs}) >= 2:
                ctx.probes["relocated"] += 1
            if len({v[1] for v in vs}) >= 2:
                ctx.probes["cwd_changed"] += 1
            if len({v[3] for v in vs}) >= 2:
                ctx.probes["listing_key_changed"] += 1
        per_world = {}
        for opx in spec["ops"]:
            per_world[opx["w"]] = per_world.get(opx["w"], 0) + 1
        if any(n >= 3 for n in per_world.values()):
            ctx.probes["repeat_same_world_ge_3"] += 1
        nontriv = any(len(vs) >= 2 for vs in seen_variants.values())
        ctx.note_case(core.spec_digest(spec), nontriv)
    finally:
        core.drop_base(base)
    return viols


def _first_diff(a, b):
    if a is None or b is None:
        return "file present in one run only"
    for x, y in zip(a.split("\n"), b.split("\n")):
        if x != y:
            return f"{x[:80]!r} vs {y[:80]!r}"
    return "length differs"


MANIFEST = {
    "engine": "E1 simworld",
    "design_ref": "DESIGN.md section 3 (C17), section 2",
    "technique": "deterministic simulation of run histories: seeded operation sequences in one long-lived interpreter (plus a "
                 "companion interpreter under another hash seed) over relocated, re-listed, re-spelled and re-neighboured worlds; "
                 "invariant after every step: every page equals the first one produced for it",
    "level_text": "Seeded exploration of histories (<= 8 steps): run, multi-input run (world of interest first/last/middle), stdout "
                  "run, API run via cminx.document with fresh Settings, Documenter run, and companion run in a persistent second "
                  "interpreter with PYTHONHASHSEED=98765; each step picks an absolute location, cwd, input spelling and listing "
                  "key.  After every step every generated file of every world must be byte-identical to the first one produced for "
                  "that (world, entry point, relative path).  Steps may reuse the output directory as the previous step left it, may "
                  "document several lone files in one call, may meet byte-identical modules, and may suffer a transient listing "
                  "failure (then they either fail loudly or produce the same files as ever).  Worlds may carry signature twins "
                  "(same parameter list on plain and keyword-collecting definitions across files and worlds) with parameter-name "
                  "strip patterns set from a -s file.",
    "level_note": "trusted: workers run under PYTHONHASHSEED 0 and 4242, the companion under 98765; API pages are compared among "
                  "themselves (dataclass defaults differ from the YAML defaults)",
}
