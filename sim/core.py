"""E1 "simworld" core: run the real CMinx CLI inside a simulated world.

The world (files, env, cwd, argv, listing schedule, fault plan) is one JSON
object.  The kernel's tmpfs stores the bytes; every source of nondeterminism
and every effect the properties talk about goes through an interposer owned by
this module:

  os.scandir / os.listdir   -> listing order decided by the call's listing key
  builtins.open / io.open   -> logged; read faults; write-mode files proxied
  os.mkdir                  -> logged; faults (errors, mkdir race)
  os.remove/rename/...      -> logged (never expected)

Nothing here draws random numbers except through random.Random(<str key>) whose
key is part of the spec, and nothing reads a clock.
"""
import builtins
import contextlib
import errno as _errno
import hashlib
import io
import json
import os
import random
import shutil
import sys
import traceback
import warnings

REPO = os.environ.get("VERIF_REPO", "/repo")

# ---------------------------------------------------------------------------
# real functions, captured before anything is patched
_real = {
    "scandir": os.scandir, "listdir": os.listdir, "open": builtins.open,
    "io_open": io.open, "mkdir": os.mkdir, "remove": os.remove,
    "unlink": os.unlink, "rename": os.rename, "replace": os.replace,
    "rmdir": os.rmdir, "os_open": os.open, "symlink": os.symlink,
    "link": os.link, "truncate": os.truncate, "chmod": os.chmod,
    "utime": os.utime,
}

_cminx = None


def import_cminx():
    """Import cminx from the working tree under test (VERIF_REPO or /repo)."""
    global _cminx
    if _cminx is None:
        src = os.path.join(REPO, "src")
        if sys.path[0] != src:
            sys.path.insert(0, src)
        warnings.simplefilter("ignore")
        import cminx  # noqa
        got = os.path.realpath(cminx.__file__)
        if not got.startswith(os.path.realpath(src) + os.sep):
            raise RuntimeError(f"cminx imported from {got}, expected below {src}")
        _cminx = cminx
    return _cminx


# ---------------------------------------------------------------------------
# sandbox

_SANDBOX_ROOT = None
_counter = 0
STATIC_ANCESTORS = ("dev", "shm", "tmp", "var", "root", "verif", "repo")


def sandbox_root():
    global _SANDBOX_ROOT
    if _SANDBOX_ROOT is None:
        cand = "/dev/shm" if os.path.isdir("/dev/shm") and os.access("/dev/shm", os.W_OK) else None
        if cand is None:
            import tempfile
            cand = tempfile.gettempdir()
        _SANDBOX_ROOT = cand
    return _SANDBOX_ROOT


def new_base():
    """A fresh empty directory.  Its name holds only upper-case letters, digits
    and '_' so that no generated exclude pattern (all of which contain a
    lower-case literal) can match it."""
    global _counter
    _counter += 1
    base = os.path.join(sandbox_root(), f"ZQV{os.getpid():07d}_{_counter:07d}")
    if os.path.exists(base):
        shutil.rmtree(base)
    os.mkdir(base)
    return base


def drop_base(base):
    try:
        shutil.rmtree(base, ignore_errors=True)
    except RecursionError:
        pass
    if os.path.exists(base):
        import subprocess
        subprocess.run(["rm", "-rf", base], check=False)


def cleanup_all():
    root = sandbox_root()
    pref = f"ZQV{os.getpid():07d}_"
    try:
        for n in os.listdir(root):
            if n.startswith(pref):
                shutil.rmtree(os.path.join(root, n), ignore_errors=True)
    except OSError:
        pass


def purge_stale():
    """Remove sandboxes left behind by processes that no longer exist."""
    root = sandbox_root()
    try:
        names = os.listdir(root)
    except OSError:
        return
    for n in names:
        if n.startswith("ZQV") and "_" in n:
            try:
                pid = int(n[3:].split("_")[0])
            except ValueError:
                continue
            if pid != os.getpid() and not os.path.exists(f"/proc/{pid}"):
                drop_base(os.path.join(root, n))


def materialise(base, files):
    """files: {relpath: str content | None for a directory | {"bytes_hex": ..}}"""
    for rel in sorted(files):
        content = files[rel]
        p = os.path.join(base, rel)
        if content is None:
            os.makedirs(p, exist_ok=True)
        else:
            os.makedirs(os.path.dirname(p), exist_ok=True)
            if isinstance(content, dict) and "symlink" in content:
                if os.path.lexists(p):
                    os.remove(p)
                os.symlink(content["symlink"].replace("{BASE}", base), p)
                continue
            if isinstance(content, dict):
                data = bytes.fromhex(content["bytes_hex"])
            else:
                data = content.encode("utf-8")
            with _real["open"](p, "wb") as f:
                f.write(data)


def snapshot(base):
    """{relpath: "d" | sha256-hex-of-content} for everything below base."""
    out = {}
    stack = [base]
    while stack:
        d = stack.pop()
        with _real["scandir"](d) as it:
            for e in it:
                rel = os.path.relpath(e.path, base)
                if e.is_symlink():
                    out[rel] = "l:" + os.readlink(e.path)
                elif e.is_dir():
                    out[rel] = "d"
                    stack.append(e.path)
                else:
                    with _real["open"](e.path, "rb") as f:
                        out[rel] = hashlib.sha256(f.read()).hexdigest()
    return out


def read_tree(base, sub):
    """{relpath-under-sub: text} for every regular file below base/sub."""
    root = os.path.join(base, sub)
    out = {}
    if not os.path.isdir(root):
        return out
    for d, _dirs, fs in os.walk(root):
        for f in fs:
            p = os.path.join(d, f)
            with _real["open"](p, "rb") as fh:
                out[os.path.relpath(p, root)] = fh.read().decode("utf-8", "replace")
    return out


def diff_snap(before, after):
    created = sorted(k for k in after if k not in before)
    deleted = sorted(k for k in before if k not in after)
    changed = sorted(k for k in after if k in before and before[k] != after[k])
    return created, changed, deleted


# ---------------------------------------------------------------------------
# interposers

class SimCrash(BaseException):
    """The simulated process is killed at this instant (only what reached the disk survives)."""


class _ScandirIter:
    def __init__(self, entries):
        self._it = iter(entries)

    def __iter__(self):
        return self

    def __next__(self):
        return next(self._it)

    def __enter__(self):
        return self

    def __exit__(self, *a):
        return False

    def close(self):
        pass


class _WFile:
    """Proxy for a file opened for writing: logs write/close, injects faults."""

    def __init__(self, sim, real, rel):
        self._sim, self._f, self._rel = sim, real, rel
        self._closed = False

    def write(self, data):
        s = self._sim
        fault = s._fault("write")
        if fault is not None:
            how = fault.get("how", "before")
            if how.startswith("torn"):
                k = max(0, min(len(data) - 1, int(how.split(":")[1]) if ":" in how else len(data) // 2))
                self._f.write(data[:k])
                self._f.flush()
            s._ev("write", self._rel, len(data), "FAULT:" + fault["errno"])
            raise s._oserr(fault, self._f.name)
        s._ev("write", self._rel, len(data), "ok")
        return self._f.write(data)

    def close(self):
        if self._closed:
            return
        self._closed = True
        s = self._sim
        fault = s._fault("close_w")
        if fault is not None:
            # data did not make it to the disk completely: keep a prefix only
            self._f.flush()
            size = self._f.tell() if self._f.seekable() else 0
            self._f.close()
            try:
                _real["truncate"](self._f.name, size // 2)
            except OSError:
                pass
            s._ev("close", self._rel, "", "FAULT:" + fault["errno"])
            raise s._oserr(fault, self._f.name)
        s._ev("close", self._rel, "", "ok")
        self._f.close()

    def __enter__(self):
        return self

    def __exit__(self, *a):
        self.close()
        return False

    def __getattr__(self, name):
        return getattr(self._f, name)

    def __iter__(self):
        return iter(self._f)


class _DetNames:
    """Deterministic replacement for tempfile's random name sequence (a source of nondeterminism the code under
    test may use, e.g. for atomic writes): names depend only on how many were drawn during this call."""

    def __init__(self):
        self.n = 0

    def __iter__(self):
        return self

    def __next__(self):
        self.n += 1
        return f"sim{self.n:05d}"


class _RFile:
    """Proxy for a file opened for reading on which a read fault is planned: the open succeeds, read() fails
    (a bad sector), optionally after delivering a prefix (short read)."""

    def __init__(self, sim, real, rel, fault):
        self._sim, self._f, self._rel, self._fault = sim, real, rel, fault
        self._served = False

    def _fail(self):
        self._sim._ev("read", self._rel, "", "FAULT:" + self._fault["errno"])
        raise self._sim._oserr(self._fault, self._f.name)

    def read(self, n=-1):
        how = self._fault.get("how", "at-start")
        # read() / read(-1) loops until EOF inside Python: an error in the middle surfaces as an exception of that one
        # call, never as a silently short result; only a sized read(n) can deliver a prefix before the failing call
        if how == "after-prefix" and not self._served and n is not None and n >= 0:
            self._served = True
            data = self._f.read()
            k = len(data) // 2
            if n is not None and n >= 0:
                k = min(k, n)
            if k > 0:
                self._sim._ev("read", self._rel, k, "short")
                return data[:k]
        self._fail()

    def readline(self, *a):
        self._fail()

    def readinto(self, b):
        self._fail()

    def __iter__(self):
        self._fail()

    def close(self):
        self._f.close()

    def __enter__(self):
        return self

    def __exit__(self, *a):
        self.close()
        return False

    def __getattr__(self, name):
        return getattr(self._f, name)


class Sim:
    """Interposer set for one call."""

    MUTATORS = ("remove", "unlink", "rename", "replace", "rmdir", "symlink", "link",
                "truncate", "chmod", "utime")

    def __init__(self, base, listing_key=0, listing_explicit=None, faults=()):
        self.base = base
        self.key = listing_key
        self.explicit = listing_explicit or {}
        self.events = []
        self.faults = [dict(f) for f in faults]
        self.counts = {}
        self.fired = []
        self.listings = []          # (rel dir, tuple(order))
        self._installed = False

    # -- helpers
    def rel(self, path):
        if isinstance(path, int):
            return f"<fd>"
        try:
            p = os.fspath(path)
        except TypeError:
            return "<?>"
        if isinstance(p, bytes):
            p = p.decode("utf-8", "replace")
        p = os.path.abspath(p)
        if p == self.base:
            return "."
        if p.startswith(self.base + os.sep):
            return p[len(self.base) + 1:]
        repo = os.path.realpath(REPO)
        rp = os.path.realpath(p)
        if rp.startswith(repo + os.sep):
            return "<repo>/" + rp[len(repo) + 1:]
        return "<outside>" + p

    def _ev(self, op, rel, detail, outcome):
        self.events.append([len(self.events), op, rel, detail, outcome])

    def _fault(self, seam, rel=None):
        """A fault fires on the nth event of its seam, or (if it has "match") on the first event of the seam
        whose path contains that substring."""
        n = self.counts.get(seam, 0) + 1
        self.counts[seam] = n
        for f in self.faults:
            if f["seam"] != seam:
                continue
            if f.get("path"):
                hit = rel is not None and rel == f["path"]
            elif f.get("match"):
                hit = rel is not None and f["match"] in rel
            elif f.get("persist"):
                hit = n >= f.get("nth", 1)          # a persistent condition (disk stays full), not a transient one
            else:
                hit = f.get("nth") == n
            if hit and (f.get("persist") or not f.get("_fired")):
                if not f.get("_fired"):
                    self.fired.append({k: v for k, v in f.items() if k != "_fired"})
                f["_fired"] = True
                return f
        return None

    def _oserr(self, fault, path):
        if fault["errno"] == "CRASH":
            return SimCrash(f"killed at {fault['seam']} of {path}")
        code = getattr(_errno, fault["errno"])
        return OSError(code, os.strerror(code), str(path))

    # -- wrappers
    def _order(self, reld, names):
        names = sorted(names)
        if reld in self.explicit:
            want = [n for n in self.explicit[reld] if n in names]
            rest = [n for n in names if n not in want]
            names = want + rest
        elif self.key:
            random.Random(f"{self.key}:{reld}").shuffle(names)
        return names

    def scandir(self, path="."):
        reld = self.rel(path)
        fault = self._fault("scandir", reld)
        if fault is not None:
            self._ev("scandir", reld, "", "FAULT:" + fault["errno"])
            raise self._oserr(fault, path)
        with _real["scandir"](path) as it:
            entries = {e.name: e for e in it}
        order = self._order(reld, list(entries))
        self._ev("scandir", reld, order, "ok")
        self.listings.append((reld, tuple(order)))
        return _ScandirIter([entries[n] for n in order])

    def listdir(self, path="."):
        reld = self.rel(path)
        names = _real["listdir"](path)
        order = self._order(reld, names)
        self._ev("listdir", reld, order, "ok")
        self.listings.append((reld, tuple(order)))
        return order

    def open(self, file, mode="r", *a, **kw):
        if isinstance(file, int):
            return _real["open"](file, mode, *a, **kw)
        rel = self.rel(file)
        writing = any(c in mode for c in "wax+")
        if writing:
            fault = self._fault("open_w", rel)
            if fault is not None:
                self._ev("open", rel, mode, "FAULT:" + fault["errno"])
                raise self._oserr(fault, file)
            try:
                f = _real["open"](file, mode, *a, **kw)
            except OSError as e:
                self._ev("open", rel, mode, "ERR:" + _errno.errorcode.get(e.errno, str(e.errno)))
                raise
            self._ev("open", rel, mode, "ok")
            return _WFile(self, f, rel)
        fault = self._fault("open_r", rel)
        if fault is not None:
            self._ev("open", rel, mode, "FAULT:" + fault["errno"])
            raise self._oserr(fault, file)
        try:
            f = _real["open"](file, mode, *a, **kw)
        except OSError as e:
            self._ev("open", rel, mode, "ERR:" + _errno.errorcode.get(e.errno, str(e.errno)))
            raise
        self._ev("open", rel, mode, "ok")
        rfault = self._fault("read", rel)
        if rfault is not None:
            return _RFile(self, f, rel, rfault)
        return f

    def mkdir(self, path, mode=0o777, *a, **kw):
        rel = self.rel(path)
        fault = self._fault("mkdir")
        if fault is not None:
            if fault["errno"] == "RACE":
                # a concurrent process created the directory first
                try:
                    _real["mkdir"](path, mode, *a, **kw)
                except FileExistsError:
                    pass
                self._ev("mkdir", rel, "", "FAULT:RACE")
                raise FileExistsError(_errno.EEXIST, os.strerror(_errno.EEXIST), str(path))
            self._ev("mkdir", rel, "", "FAULT:" + fault["errno"])
            raise self._oserr(fault, path)
        try:
            r = _real["mkdir"](path, mode, *a, **kw)
        except OSError as e:
            self._ev("mkdir", rel, "", "ERR:" + _errno.errorcode.get(e.errno, str(e.errno)))
            raise
        self._ev("mkdir", rel, "", "ok")
        return r

    def _mut(self, name):
        real = _real[name]

        def wrapper(*a, **kw):
            self._ev(name, self.rel(a[0]) if a else "?", [self.rel(x) for x in a[1:2]], "called")
            return real(*a, **kw)
        return wrapper

    def os_open(self, path, flags, *a, **kw):
        if flags & (os.O_WRONLY | os.O_RDWR | os.O_CREAT | os.O_TRUNC | os.O_APPEND):
            self._ev("os.open", self.rel(path), flags, "called")
        return _real["os_open"](path, flags, *a, **kw)

    # -- install / uninstall
    def install(self):
        import random as _random
        import tempfile as _tempfile
        self._saved_names = _tempfile._name_sequence
        _tempfile._name_sequence = _DetNames()
        self._saved_random = _random.getstate()
        _random.seed(f"call:{self.key}")
        self._saved_getpid = os.getpid
        os.getpid = lambda: 4242
        os.scandir = self.scandir
        os.listdir = self.listdir
        builtins.open = self.open
        io.open = self.open
        os.mkdir = self.mkdir
        os.open = self.os_open
        for n in self.MUTATORS:
            setattr(os, n, self._mut(n))
        self._installed = True

    def uninstall(self):
        import random as _random
        import tempfile as _tempfile
        _tempfile._name_sequence = self._saved_names
        _random.setstate(self._saved_random)
        os.getpid = self._saved_getpid
        os.scandir = _real["scandir"]
        os.listdir = _real["listdir"]
        builtins.open = _real["open"]
        io.open = _real["io_open"]
        os.mkdir = _real["mkdir"]
        os.open = _real["os_open"]
        for n in self.MUTATORS:
            setattr(os, n, _real[n])
        self._installed = False


# ---------------------------------------------------------------------------
# one call

ENV_KEYS = ("HOME", "XDG_CONFIG_HOME", "XDG_CONFIG_DIRS", "CMINXDIR", "TMPDIR")


def subst(s, base):
    return s.replace("{BASE}", base) if isinstance(s, str) else s


def status_of(code):
    if code is None:
        return 0
    if isinstance(code, int):
        return code & 0xFF
    return 1


class CallResult:
    __slots__ = ("status", "stdout", "stderr", "exc", "events", "listings", "fired",
                 "created", "changed", "deleted", "before", "after", "captured")

    def trace_digest(self):
        h = hashlib.sha256(json.dumps([self.status, self.exc, self.events,
                                       self.created, self.changed, self.deleted],
                                      sort_keys=True, default=str).encode()).hexdigest()
        return h[:16]


def run_call(base, call, env=None, entry=None, snap=True, capture_settings=False):
    """Execute one CMinx invocation inside the world rooted at *base*.

    call: {"cwd": rel, "argv": [...], "listing_key": int, "listing_explicit": {...},
           "faults": [...]}
    env:  {NAME: value-with-{BASE} | None}
    entry: callable(argv) replacing cminx.main (used by API-level histories).
    """
    cminx = import_cminx()
    res = CallResult()
    before = snapshot(base) if snap else None
    sim = Sim(base, call.get("listing_key", 0), call.get("listing_explicit"), call.get("faults", ()))
    argv = [subst(a, base) for a in call["argv"]]
    saved_env = {k: os.environ.get(k) for k in ENV_KEYS}
    saved_cwd = os.getcwd()
    out, err = io.StringIO(), io.StringIO()
    res.exc = None
    res.captured = None
    real_document = cminx.document
    try:
        full_env = {"HOME": "{BASE}/home", "XDG_CONFIG_HOME": None,
                    "XDG_CONFIG_DIRS": "{BASE}/xdgdirs", "CMINXDIR": None, "TMPDIR": "{BASE}/tmp"}
        full_env.update(env or {})
        for k, v in full_env.items():
            if v is None:
                os.environ.pop(k, None)
            else:
                os.environ[k] = subst(v, base)
        os.chdir(os.path.join(base, call.get("cwd", "")))
        if capture_settings:
            captured = []

            def recorder(input_file, settings):
                import copy as _copy
                snap = _copy.copy(settings)
                try:
                    snap.input = _copy.copy(settings.input)
                    # what this very call would see: a one-shot iterator is consumed here, as document() would consume it
                    snap.input.exclude_filters = list(settings.input.exclude_filters)
                except Exception:
                    pass
                captured.append((input_file, snap))
            cminx.document = recorder
            res.captured = captured
        sim.install()
        try:
            with contextlib.redirect_stdout(out), contextlib.redirect_stderr(err):
                try:
                    (entry or cminx.main)(argv)
                    res.status = 0
                except SystemExit as e:
                    res.status = status_of(e.code)
                except BaseException as e:  # what the console script would turn into a traceback + 1
                    res.status = 1
                    res.exc = [type(e).__name__, str(e)[:300].replace(base, "{BASE}")]
                    traceback.print_exc(file=err)
        finally:
            sim.uninstall()
    finally:
        cminx.document = real_document
        os.chdir(saved_cwd)
        for k, v in saved_env.items():
            if v is None:
                os.environ.pop(k, None)
            else:
                os.environ[k] = v
    res.stdout = out.getvalue()
    res.stderr = err.getvalue()
    res.events = sim.events
    res.listings = sim.listings
    res.fired = sim.fired
    if snap:
        after = snapshot(base)
        res.before, res.after = before, after
        res.created, res.changed, res.deleted = diff_snap(before, after)
    else:
        res.before = res.after = None
        res.created = res.changed = res.deleted = []
    return res


def spec_digest(spec):
    return hashlib.sha256(json.dumps(spec, sort_keys=True).encode()).hexdigest()[:16]
