"""Command line of the verification machinery.

  cli.py check <ID> quick|thorough     run a property's check (writes evidence/<ID>.json)
  cli.py replay <file>                 re-execute a replay file
  cli.py selftest determinism|mutants  self tests (see DESIGN.md section 4)
"""
import os
import sys

VERIF = os.path.dirname(os.path.dirname(os.path.abspath(__file__)))
if VERIF not in sys.path:
    sys.path.insert(0, VERIF)
os.environ.setdefault("PYTHONWARNINGS", "ignore")


def main(argv):
    import warnings
    warnings.simplefilter("ignore")
    import atexit
    from sim import core
    atexit.register(core.cleanup_all)
    if len(argv) >= 3 and argv[0] == "check":
        from sim import harness
        core.purge_stale()
        kw = {}
        for a in argv[3:]:
            k, _, v = a.partition("=")
            kw[k.lstrip("-")] = int(v)
        if kw or os.environ.get("VERIF_REPO"):
            kw.setdefault("write_evidence", 0)      # partial or mutant runs never overwrite the evidence file
        return harness.run_check(argv[1].upper(), argv[2], **kw)
    if len(argv) == 8 and argv[0] == "shard":
        import json
        from sim import harness
        r = harness.run_shard(argv[1], int(argv[2]), int(argv[3]), argv[4], int(argv[5]), int(argv[6]))
        with open(argv[7], "w") as f:
            json.dump(r, f)
        return 0
    if len(argv) == 2 and argv[0] == "replay":
        from sim import harness
        return harness.replay_file(argv[1])
    if len(argv) >= 2 and argv[0] == "selftest":
        from sim import selftest
        return selftest.main(argv[1:])
    print(__doc__)
    return 2


if __name__ == "__main__":
    try:
        rc = main(sys.argv[1:])
    except SystemExit:
        raise
    except BaseException:
        import traceback
        traceback.print_exc()
        print("HARNESS-ERROR uncaught exception in driver")
        rc = 2
    sys.exit(rc)
