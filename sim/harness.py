"""Sharded, seeded search driver shared by all checks.

One integer (VERIF_SEED) decides everything: shard s of property P runs an
independent Hypothesis search seeded with f(seed, s, P); results depend on
(seed, shard) only, never on worker count or scheduling of workers.

Exit codes of a check: 0 held (possibly KNOWN-FINDING lines), 1 VIOLATION,
2 harness error (never converted into either verdict).
"""
import collections
import concurrent.futures as cf
import faulthandler
import hashlib
import importlib
import json
import os
import random
import subprocess
import sys
import time
import traceback

VERIF = os.path.dirname(os.path.dirname(os.path.abspath(__file__)))
DEFAULT_SEED = 20261002
PY = sys.executable


class Violation(Exception):
    pass


_vclasses = {}


def vclass(clause):
    c = _vclasses.get(clause)
    if c is None:
        c = type("Violation_" + "".join(ch if ch.isalnum() else "_" for ch in clause), (Violation,), {})
        _vclasses[clause] = c
    return c


class Ctx:
    """Per-shard accumulators.  Everything is measured, nothing is constant."""

    def __init__(self):
        self.examples = 0
        self.runs = 0
        self.case_digests = set()
        self.nontrivial = set()
        self.trace_digests = set()
        self.listing_orders = set()
        self.probes = collections.Counter()
        self.faults_planned = collections.Counter()
        self.faults_fired = collections.Counter()
        self.known = collections.Counter()
        self.discarded = collections.Counter()
        self.trace = []
        self.samples = []
        self.last_trace = ""

    def note_case(self, digest, nontrivial):
        self.case_digests.add(digest)
        if nontrivial:
            self.nontrivial.add(digest)

    def note_call(self, res):
        self.runs += 1
        td = res.trace_digest()
        self.trace_digests.add(td)
        self.last_trace = td
        for d, order in res.listings:
            self.listing_orders.add(hashlib.sha256(repr((d, order)).encode()).hexdigest()[:12])
        for f in res.fired:
            self.faults_fired[f["seam"] + ":" + f["errno"]] += 1
        return td

    def export(self):
        return {
            "examples": self.examples, "runs": self.runs,
            "case_digests": sorted(self.case_digests), "nontrivial": sorted(self.nontrivial),
            "trace_digests": sorted(self.trace_digests), "listing_orders": sorted(self.listing_orders),
            "probes": dict(self.probes), "faults_planned": dict(self.faults_planned),
            "faults_fired": dict(self.faults_fired), "known": dict(self.known),
            "discarded": dict(self.discarded), "samples": self.samples[:2],
            "shard_digest": hashlib.sha256(json.dumps(self.trace).encode()).hexdigest()[:20],
            # the same without the event traces: worlds generated and verdicts reached
            "verdict_digest": hashlib.sha256(json.dumps([[t[0], t[2]] for t in self.trace]).encode()).hexdigest()[:20],
            "trace_head": self.trace[:400],      # kept so that a determinism mismatch can be diagnosed from the run itself
        }


# ---------------------------------------------------------------------------
# known findings

def load_known():
    p = os.path.join(VERIF, "known_findings.json")
    if not os.path.exists(p) or os.environ.get("VERIF_NO_KNOWN"):     # VERIF_NO_KNOWN: tooling only (to mint pinned replays)
        return []
    with open(p) as f:
        known = json.load(f)
    # pinned probes: fixed worlds that are not findings at all but must pass on every run (same mechanism as the
    # regression worlds of fixed findings); kept in their own file so that known_findings.json lists findings only
    pp = os.path.join(VERIF, "pinned_probes.json")
    if os.path.exists(pp):
        with open(pp) as f:
            known = known + json.load(f)
    return known


def match_known(known, prop_id, v):
    for k in known:
        if k.get("status") != "known" or prop_id not in k["property"].split(","):
            continue
        sig = k["signature"]
        if all(v.get("sig", {}).get(a) == b for a, b in sig.items()):
            return k
    return None


def load_prop(prop_id):
    return importlib.import_module("sim.props." + prop_id.lower())


# ---------------------------------------------------------------------------
# one shard (runs inside a worker interpreter)

def shard_seed(seed, shard, prop_id):
    return int(hashlib.sha256(f"{seed}:{shard}:{prop_id}".encode()).hexdigest()[:12], 16)


def run_shard(prop_id, seed, shard, tier, examples, timeout):
    from hypothesis import HealthCheck, Phase, given, settings
    from hypothesis import seed as hseed
    from hypothesis.errors import Flaky, FlakyFailure  # noqa
    from . import core
    faulthandler.dump_traceback_later(timeout, exit=True)
    # shrinking is only reached on a failing tree; bound it so that a failing check answers in minutes
    import hypothesis.internal.conjecture.engine as _eng
    _eng.MAX_SHRINKING_SECONDS = 40 if tier == "quick" else 150
    t0 = time.time()
    mod = load_prop(prop_id)
    known = load_known()
    ss = shard_seed(seed, shard, prop_id)
    cfg = mod.swarm(random.Random(ss), tier)
    ctx = Ctx()
    state = {"fail": None}

    def body(spec):
        ctx.examples += 1
        viols = mod.evaluate(spec, ctx)
        new = []
        for v in viols:
            k = match_known(known, prop_id, v)
            if k is not None:
                ctx.known[k["id"]] += 1
            else:
                new.append(v)
        if state["fail"] is None:       # the digest covers the generation phase; shrinking may be cut by wall time
            ctx.trace.append([core.spec_digest(spec), ctx.last_trace, sorted(v["clause"] for v in new)])
        if len(ctx.samples) < 2 and not new:
            ctx.samples.append(spec)
        if new:
            state["fail"] = {"spec": spec, "violations": new}
            raise vclass(new[0]["clause"])(new[0]["clause"])

    test = hseed(ss)(settings(max_examples=examples, database=None, deadline=None,
                             report_multiple_bugs=False, derandomize=False,
                             suppress_health_check=list(HealthCheck),
                             phases=[Phase.generate, Phase.shrink])(given(mod.strategy(cfg))(body)))
    out = {"shard": shard, "cfg": cfg, "violation": None, "error": None}
    try:
        test()
    except Violation:
        out["violation"] = state["fail"]
    except BaseException as e:  # generator bug, sandbox error, flaky replay ...
        flaky = type(e).__name__ in ("Flaky", "FlakyFailure", "FlakyReplay") or "Flaky" in type(e).__name__
        if flaky and state["fail"] is not None:
            # a violation was observed, but the same world did not fail again inside this interpreter: the behaviour of
            # the code under test depends on process history (caches, object identity reuse, ...).  Report what was
            # observed; the replay is the whole shard.
            out["violation"] = state["fail"]
            out["history_dependent"] = True
        else:
            out["error"] = traceback.format_exc()[-3000:]
    finally:
        faulthandler.cancel_dump_traceback_later()
        core.cleanup_all()
    out.update(ctx.export())
    out["wall_s"] = round(time.time() - t0, 3)
    return out


def _init_worker():
    sys.path.insert(0, VERIF) if VERIF not in sys.path else None
    os.environ.setdefault("PYTHONWARNINGS", "ignore")


# ---------------------------------------------------------------------------
# pinned replays (known findings and fixed regressions)

def evaluate_spec(prop_id, spec):
    mod = load_prop(prop_id)
    ctx = Ctx()
    viols = mod.evaluate(spec, ctx)
    return viols, ctx


def run_pinned(prop_id, known):
    """-> (lines to print, violations [(entry, v)])."""
    lines, bad = [], []
    for k in known:
        if prop_id not in k["property"].split(",") or not k.get("replay"):
            continue
        rp = k["replay"].get(prop_id) if isinstance(k["replay"], dict) else k["replay"]
        if not rp:
            continue
        path = os.path.join(VERIF, rp)
        with open(path) as f:
            doc = json.load(f)
        viols, _ = evaluate_spec(prop_id, doc["spec"])
        if k["status"] == "known":
            hit = [v for v in viols if match_known([k], prop_id, v)]
            other = [v for v in viols if not match_known(known, prop_id, v)]
            if hit:
                lines.append(f"KNOWN-FINDING: property={prop_id} {k['what']} [{k['id']}; pinned replay {rp}]")
            else:
                lines.append(f"NOTE: known finding {k['id']} did not reproduce on its pinned replay {rp}")
            for v in other:
                bad.append((path, v))
        else:  # fixed: suppresses nothing; the pinned world must now pass
            n_bad = 0
            for v in viols:
                if not match_known(known, prop_id, v):
                    bad.append((path, v))
                    n_bad += 1
            if not n_bad:
                lines.append((f"pinned probe {k['id']} passes ({rp})" if k["status"] == "probe" else
                              f"pinned regression world of fixed finding {k['id']} passes ({rp})"))
    return lines, bad


# ---------------------------------------------------------------------------
# the check driver

def write_replay(prop_id, seed, shard, fail, cfg, use_narrow=True):
    d = os.path.join(VERIF, "replays")
    os.makedirs(d, exist_ok=True)
    path = os.path.join(d, f"{prop_id}-{seed}-{shard}.json")
    spec = fail["spec"]
    viols = []
    for v in fail["violations"]:
        v = dict(v)
        nar = v.pop("narrow", None)
        if use_narrow and nar is not None and spec is fail["spec"]:
            spec = nar          # a spec that holds just the failing fault set
        viols.append(v)
    with open(path, "w") as f:
        json.dump({"property": prop_id, "seed": seed, "shard": shard, "swarm": cfg,
                   "violations": viols, "spec": spec}, f, indent=1, sort_keys=True)
    return path


def write_shard_replay(prop_id, seed, shard, tier, examples, fail, cfg):
    d = os.path.join(VERIF, "replays")
    os.makedirs(d, exist_ok=True)
    path = os.path.join(d, f"{prop_id}-{seed}-{shard}-shard.json")
    viols = [{k: x for k, x in v.items() if k != "narrow"} for v in fail["violations"]]
    with open(path, "w") as f:
        json.dump({"property": prop_id, "kind": "shard", "seed": seed, "shard": shard, "tier": tier, "examples": examples,
                   "swarm": cfg, "violations": viols, "last_world": fail["spec"],
                   "note": "history-dependent failure: the replay re-runs the whole shard (its sequence of worlds) in a "
                           "fresh interpreter; last_world is the world in which the violation was observed"},
                  f, indent=1, sort_keys=True)
    return path


def replay_file(path, quiet=False):
    """Re-execute a replay file in this interpreter.  -> exit code."""
    with open(path) as f:
        doc = json.load(f)
    prop_id = doc["property"]
    known = load_known()
    if doc.get("kind") == "shard":
        r = run_shard(prop_id, doc["seed"], doc["shard"], doc["tier"], doc["examples"], 900)
        got = r["violation"]["violations"] if r.get("violation") else []
        for v in got:
            print("NEW   " + json.dumps({k: x for k, x in v.items() if k != "narrow"}, sort_keys=True))
        print("REPLAY-CLAUSES " + json.dumps(sorted(v["clause"] for v in got)))
        print("REPLAY-TRACE " + r["shard_digest"])
        if got:
            print(f"VIOLATION property={prop_id} replay={path}")
            return 1
        print("no unlisted violation reproduced")
        return 0
    viols, ctx = evaluate_spec(prop_id, doc["spec"])
    new = [v for v in viols if not match_known(known, prop_id, v)]
    for v in viols:
        tagk = match_known(known, prop_id, v)
        print(("KNOWN " if tagk else "NEW   ") + json.dumps({k: x for k, x in v.items() if k != "narrow"}, sort_keys=True))
    print("REPLAY-CLAUSES " + json.dumps(sorted(v["clause"] for v in new)))
    print("REPLAY-TRACE " + ctx.last_trace)
    if new:
        print(f"VIOLATION property={prop_id} replay={path}")
        return 1
    print("no unlisted violation reproduced")
    return 0


def confirm_in_fresh_interpreter(path, clauses, any_clause=False):
    env = dict(os.environ)
    env["PYTHONHASHSEED"] = "0"
    p = subprocess.run([PY, os.path.join(VERIF, "sim", "cli.py"), "replay", path],
                       capture_output=True, text=True, env=env, timeout=600)
    got = None
    for ln in p.stdout.splitlines():
        if ln.startswith("REPLAY-CLAUSES "):
            got = json.loads(ln[len("REPLAY-CLAUSES "):])
    same = got is not None and (bool(got) if any_clause else bool(set(clauses) & set(got)))
    return p.returncode == 1 and same, p.stdout[-2000:] + p.stderr[-2000:]


def run_shard_in_fresh_interpreter(prop_id, seed, shard, tier, examples, timeout, hashseed):
    """Every shard runs in its own interpreter: the shard is the unit of process history, so its result is a
    function of (seed, shard) alone and re-running it in another fresh interpreter reproduces it exactly."""
    import tempfile
    fd, out = tempfile.mkstemp(prefix="zqv-shard-", suffix=".json", dir=_scratch_dir())
    os.close(fd)
    env = dict(os.environ, PYTHONHASHSEED=str(hashseed), PYTHONWARNINGS="ignore", PYTHONDONTWRITEBYTECODE="1")
    try:
        p = subprocess.run([PY, os.path.join(VERIF, "sim", "cli.py"), "shard", prop_id, str(seed), str(shard), tier,
                            str(examples), str(timeout), out], env=env, capture_output=True, text=True,
                           timeout=timeout + 120)
        try:
            with open(out) as f:
                return json.load(f)
        except Exception:
            raise RuntimeError(f"shard process exit {p.returncode}: {p.stderr[-1500:]}")
    finally:
        try:
            os.remove(out)
        except OSError:
            pass


def _scratch_dir():
    return "/dev/shm" if os.path.isdir("/dev/shm") and os.access("/dev/shm", os.W_OK) else None


HASHSEEDS = ("0", "4242")


def run_check(prop_id, tier, seed=None, workers=None, shards=None, examples=None, budget_s=None,
              write_evidence=True, det_slice=None):
    t0 = time.time()
    mod = load_prop(prop_id)
    seed = int(os.environ.get("VERIF_SEED", DEFAULT_SEED)) if seed is None else seed
    tcfg = dict(mod.TIERS[tier])
    if shards is not None:
        tcfg["shards"] = shards
    if examples is not None:
        tcfg["examples"] = examples
    if budget_s is not None:
        tcfg["budget_s"] = budget_s
    workers = workers or int(os.environ.get("VERIF_WORKERS", "16"))
    det_n = tcfg.get("det_shards", 2) if det_slice is None else det_slice
    known = load_known()
    print(f"[{prop_id}] tier={tier} seed={seed} shards={tcfg['shards']} examples/shard={tcfg['examples']} "
          f"workers={workers} repo={os.environ.get('VERIF_REPO', '/repo')}", flush=True)

    exit_code = 0
    harness_errors = []
    violations = []      # (replay path)
    # 1. pinned replays: known findings (reported, tolerated) and fixed defects (must pass)
    try:
        lines, bad = run_pinned(prop_id, known)
    except Exception:
        lines, bad = [], []
        harness_errors.append("pinned replay failed:\n" + traceback.format_exc())
    for ln in lines:
        print(ln, flush=True)
    for path, v in bad:
        print(f"VIOLATION property={prop_id} replay={path}", flush=True)
        print("  " + json.dumps(v, sort_keys=True)[:600])
        violations.append(path)

    # 2. seeded search over worlds / schedules / fault plans
    results = {}
    det_pairs = {}
    timeout = tcfg.get("shard_timeout", 900)
    pool = cf.ThreadPoolExecutor(max_workers=workers)
    try:
        futs = {}
        for s in range(tcfg["shards"]):
            futs[pool.submit(run_shard_in_fresh_interpreter, prop_id, seed, s, tier, tcfg["examples"], timeout,
                             HASHSEEDS[s % 2])] = ("main", s)
        for s in range(min(det_n, tcfg["shards"])):
            # the same shard once more, in another interpreter under the other hash seed
            futs[pool.submit(run_shard_in_fresh_interpreter, prop_id, seed, s, tier, tcfg["examples"], timeout,
                             HASHSEEDS[(s + 1) % 2])] = ("det", s)
        deadline = t0 + tcfg.get("budget_s", 10 ** 9)
        for fut in cf.as_completed(futs):
            kind, s = futs[fut]
            if fut.cancelled():
                continue
            try:
                r = fut.result()
            except Exception as e:
                harness_errors.append(f"shard {s} ({kind}) died: {type(e).__name__}: {e}")
                continue
            if kind == "main":
                results[s] = r
            else:
                det_pairs[s] = r
            if r.get("violation") and not os.environ.get("VERIF_NO_FAILFAST"):
                for f2 in futs:         # the verdict is settled: do not start further shards
                    f2.cancel()
            if time.time() > deadline:
                for f2 in futs:
                    f2.cancel()
    finally:
        pool.shutdown(wait=True, cancel_futures=True)

    # 3. determinism slice: the same shards once more in other interpreters under the other hash seed
    det_ok = True
    det_note = None
    det_retries = 0
    for s, r2 in det_pairs.items():
        r1 = results.get(s)
        if r1 is None:
            continue
        if r1["verdict_digest"] != r2["verdict_digest"] or r1["examples"] != r2["examples"]:
            # two more runs of the shard decide whether this is a one-off (reported, tolerated once) or real
            extra = []
            for hs in HASHSEEDS:
                try:
                    extra.append(run_shard_in_fresh_interpreter(prop_id, seed, s, tier, tcfg["examples"], timeout, hs))
                except Exception as e:
                    harness_errors.append(f"shard {s} (determinism re-run) died: {e}")
            digs = [r1["verdict_digest"], r2["verdict_digest"]] + [x["verdict_digest"] for x in extra]
            common = max(set(digs), key=digs.count)
            if len(extra) == 2 and digs.count(common) >= 3 and not any(x.get("violation") for x in extra):
                det_retries += 1
                print(f"[{prop_id}] NOTE: shard {s}: one of four runs deviated ({digs}); three agree - treated as a one-off, "
                      f"recorded in the evidence", flush=True)
                if r1["verdict_digest"] != common:
                    results[s] = extra[0]
                continue
            det_ok = False
            first_diff = next((i for i, (a, b) in enumerate(zip(r1.get("trace_head", []), r2.get("trace_head", []))) if a != b),
                              min(len(r1.get("trace_head", [])), len(r2.get("trace_head", []))))
            try:
                with open(os.path.join(VERIF, "replays", f"nondeterminism-{prop_id}-{seed}-{s}.json"), "w") as f:
                    json.dump({"first_diff_index": first_diff, "run1": r1.get("trace_head"), "run2": r2.get("trace_head"),
                               "examples": [r1["examples"], r2["examples"]]}, f, indent=0)
            except OSError:
                pass
            harness_errors.append(f"nondeterminism: shard {s} worlds/verdicts differ between two runs "
                                  f"({r1['verdict_digest']} vs {r2['verdict_digest']}; examples {r1['examples']} vs "
                                  f"{r2['examples']}; first differing world #{first_diff})")
        elif r1["shard_digest"] != r2["shard_digest"]:
            # same worlds, same verdicts, different event logs: the code under test makes choices the simulator does
            # not own (e.g. names of temporary files).  Worth knowing, not a reason to distrust the verdicts.
            det_note = (f"event traces of shard {s} differ between two runs although worlds and verdicts are identical: "
                        f"the code under test uses a source of nondeterminism outside the simulator's seams")
    if det_note:
        print(f"[{prop_id}] NOTE: {det_note}", flush=True)

    # 4. violations found by the search: write replay, confirm in a fresh interpreter
    for s in sorted(results):
        r = results[s]
        if r.get("error"):
            harness_errors.append(f"shard {s}: {r['error']}")
        if r.get("violation"):
            clauses = [v["clause"] for v in r["violation"]["violations"]]
            if r.get("history_dependent"):
                ok, txt = False, "the failing world did not fail again inside the same interpreter"
                path = None
            else:
                path = write_replay(prop_id, seed, s, r["violation"], r["cfg"])
                ok, txt = confirm_in_fresh_interpreter(path, clauses)
            if not ok and path and any("narrow" in v for v in r["violation"]["violations"]):
                path = write_replay(prop_id, seed, s, r["violation"], r["cfg"], use_narrow=False)
                ok, txt = confirm_in_fresh_interpreter(path, clauses)
            if not ok:
                # the failure needs the history of the interpreter that found it (state carried from earlier worlds
                # of the shard): the replay is then the whole shard, which is deterministic in a fresh interpreter
                path = write_shard_replay(prop_id, seed, s, tier, tcfg["examples"], r["violation"], r["cfg"])
                # history-dependent behaviour may surface as a neighbouring clause when the shard is re-run
                ok, txt = confirm_in_fresh_interpreter(path, clauses, any_clause=True)
            if ok:
                if len(violations) < 5:
                    print(f"VIOLATION property={prop_id} replay={path}", flush=True)
                    for v in r["violation"]["violations"][:3]:
                        print("  " + json.dumps({k: x for k, x in v.items() if k != "narrow"}, sort_keys=True)[:600])
                violations.append(path)
            else:
                harness_errors.append(f"shard {s}: violation did not replay in a fresh interpreter ({path}):\n{txt}")

    # 5. known findings met during the search
    known_seen = collections.Counter()
    for r in results.values():
        known_seen.update(r.get("known", {}))
    for k in known:
        if k["id"] in known_seen and not any(k["id"] in ln for ln in lines):
            print(f"KNOWN-FINDING: property={prop_id} {k['what']} [{k['id']}; met {known_seen[k['id']]}x in search]")

    wall = time.time() - t0
    ev = build_evidence(mod, prop_id, tier, seed, tcfg, results, det_ok, len(det_pairs), known_seen,
                        violations, harness_errors, wall, workers, lines)
    ev["coverage"]["determinism_one_off_deviations"] = det_retries
    if write_evidence:
        os.makedirs(os.path.join(VERIF, "evidence"), exist_ok=True)
        with open(os.path.join(VERIF, "evidence", f"{prop_id}.json"), "w") as f:
            json.dump(ev, f, indent=1, sort_keys=True)
    c = ev["coverage"]
    print(f"[{prop_id}] worlds={c['worlds']} runs={c['evaluations']} distinct_nontrivial={c['distinct_nontrivial']} "
          f"trace_digests={c['trace_digests_distinct']} runs/h={c['runs_per_hour']} wall={wall:.1f}s "
          f"determinism_ok={det_ok}" + ("" if write_evidence else " (evidence file not rewritten)"), flush=True)
    zero = [p for p in getattr(mod, "PROBES", ()) if not c["probes"].get(p)]
    if zero:
        print(f"[{prop_id}] probes at zero: {zero}")
    if harness_errors:
        for h in harness_errors[:5]:
            print("HARNESS-ERROR " + h, flush=True)
        exit_code = 2
    if violations:
        exit_code = 1
    return exit_code


def build_evidence(mod, prop_id, tier, seed, tcfg, results, det_ok, det_n, known_seen, violations,
                   harness_errors, wall, workers, pinned_lines):
    cases, nontriv, traces, orders = set(), set(), set(), set()
    probes, fp, ff, disc = (collections.Counter() for _ in range(4))
    runs = examples = 0
    samples = []
    for s in sorted(results):
        r = results[s]
        cases.update(r["case_digests"])
        nontriv.update(r["nontrivial"])
        traces.update(r["trace_digests"])
        orders.update(r["listing_orders"])
        probes.update(r["probes"])
        fp.update(r["faults_planned"])
        ff.update(r["faults_fired"])
        disc.update(r["discarded"])
        runs += r["runs"]
        examples += r["examples"]
        if len(samples) < 4:
            samples.extend(r["samples"][:1])
    cov = {
        "evaluations": runs,
        "worlds": examples,
        "distinct_cases": len(cases),
        "distinct_nontrivial": len(nontriv),
        "rule": mod.RULE,
        "samples": samples or [{"note": "no passing sample recorded"}],
        "shards": len(results),
        "shards_planned": tcfg["shards"],
        "examples_per_shard": tcfg["examples"],
        "runs_per_hour": int(runs / wall * 3600) if wall > 0 else 0,
        "seeds_per_hour": int(len(results) / wall * 3600) if wall > 0 else 0,
        "simulated_time": "none: the system has no timers, deadlines or clocks that any property reads",
        "trace_digests_distinct": len(traces),
        "listing_orders_distinct": len(orders),
        "fault_counts": {"planned": dict(fp), "fired": dict(ff)},
        "probes": dict(probes),
        "discarded": dict(disc),
        "components": mod.COMPONENTS,
        "known_findings_seen": dict(known_seen),
        "pinned": pinned_lines,
        "determinism_ok": det_ok,
        "determinism_shards_rerun_other_hashseed": det_n,
        "workers": workers,
        "harness_errors": len(harness_errors),
        "exhaustive": False,
    }
    return {
        "property_id": prop_id, "tier": tier, "seed": seed, "level": mod.LEVEL,
        "coverage": cov,
        "assumptions": mod.ASSUMPTIONS,
        "wall_s": round(wall, 2),
        "violations": len(violations),
    }
