"""Hypothesis generators shared by the E1 checks: trees, placements, patterns.

Every function takes Hypothesis' ``draw`` so that all choices are shrinkable and
derive from the shard seed only.
"""
import fnmatch
import posixpath

from hypothesis import strategies as st

from . import cmakegen, core, refs

DIRNAMES = ["a", "b", "a.b", "x-y", "mod", "mod.v2", "build", "sub", "t1", "deep", "cm.cmake", "n", "CMakeFiles", ".ci"]
STEMS = ["m", "n1", "n2", "n3", "a", "b", "a.b", "x-y", "x", "mod", "util", "zed", "lib.core", "cm", "N1", "tc.cmake.in", "dup.cmake", "n01"]
EXTS = [".cmake", ".cmake", ".cmake", ".cmake", ".cmake", ".CMAKE", ".CMake", ".txt", ".cmake.in", ""]
# Non-ASCII names, composed (NFC) and decomposed (NFD) spellings of the same visible text: two different files on
# the simulated disk.  Only drawn when a check asks for odd names (C13, C14).
UNI_STEMS = ["caf\u00e9", "cafe\u0301", "\u00fcber", "\u043c\u043e\u0434"]
UNI_DIRNAMES = ["d\u00e9p", "de\u0301p", "\u00e5"]
PROJ_NAMES = ["proj", "src", "my-proj", "p.q", "cmake"]
LOC_NAMES = ["w1", "site", "work", "ci", "checkout", "deep", "build", "mod"]


class Site:
    """A generated tree at a generated place."""
    pass


def draw_tree(draw, max_depth=3, max_files=3, max_subdirs=3, max_cmds=3, odd_names=False, with_mod=True,
              budget=None, extra_dirnames=(), duplicates=False):
    """-> {relpath: text | None}.  File tags f0,f1,.. are assigned in creation order."""
    tree = {}
    counter = [0]
    left = [budget if budget is not None else 10]

    made = []

    def content(name):
        if refs.is_cmake(name):
            if duplicates and made and draw(st.integers(0, 2)) == 0:
                return draw(st.sampled_from(made))       # a byte-identical copy of an earlier module
            tag = f"f{counter[0]}"
            counter[0] += 1
            desc = draw(cmakegen.desc_strategy(max_cmds=max_cmds, with_mod=with_mod))
            text = cmakegen.render(desc, tag).text
            made.append(text)
            return text
        if name == "cmake":
            return "set(zfilenamedcmake 1)\n"
        return f"not cmake: {name}\n"

    def fill(d, depth):
        stems = draw(st.lists(st.sampled_from(STEMS + UNI_STEMS if odd_names else STEMS), unique=True, min_size=0, max_size=max_files))
        names = []
        for s in stems:
            ext = draw(st.sampled_from(EXTS))
            names.append(s + ext)
        if odd_names and draw(st.integers(0, 7)) == 0:
            names.append("cmake")       # a file literally named "cmake"
        for nme in names:
            tree[posixpath.join(d, nme)] = content(nme)
        if depth < max_depth and left[0] > 0:
            subs = draw(st.lists(st.sampled_from(DIRNAMES + list(extra_dirnames) + (UNI_DIRNAMES if odd_names else [])), unique=True, min_size=0,
                                 max_size=max_subdirs))
            for s in subs:
                if s in names or left[0] <= 0:
                    continue
                left[0] -= 1
                rel = posixpath.join(d, s)
                tree[rel] = None
                fill(rel, depth + 1)

    fill("", 0)
    return tree


def add_numeric_twins(draw, tree):
    """'n1.cmake' next to 'n01.cmake': names that differ only in leading zeros (equal under a 'natural' sort key)."""
    for rel in sorted(tree):
        base = posixpath.basename(rel)
        if tree[rel] is not None and base.startswith("n1.") and draw(st.booleans()):
            twin = posixpath.join(posixpath.dirname(rel), "n01." + base.split(".", 1)[1])
            stems_here = {refs.stem(posixpath.basename(k)) for k in tree
                          if tree[k] is not None and posixpath.dirname(k) == posixpath.dirname(rel) and "." in posixpath.basename(k)}
            if twin not in tree and "n01" not in stems_here:
                tree[twin] = tree[rel].replace("zq", "zr") if refs.is_cmake(twin) else "twin\n"
        if tree[rel] is not None and base.startswith("n1.") and draw(st.booleans()):
            # and a twin that differs only in letter case
            twin = posixpath.join(posixpath.dirname(rel), "N1." + base.split(".", 1)[1])
            stems_here = {refs.stem(posixpath.basename(k)) for k in tree
                          if tree[k] is not None and posixpath.dirname(k) == posixpath.dirname(rel) and "." in posixpath.basename(k)}
            if twin not in tree and "N1" not in stems_here:
                tree[twin] = tree[rel].replace("zq", "zs") if refs.is_cmake(twin) else "twin\n"
    return tree


def fix_for_auto_exclude(tree):
    """Constraints from the quantifier of C13 where auto-exclusion applies: the
    input directory holds a .cmake file; a lower-case .cmake sits next to any
    mixed-case one."""
    ch = refs.children(tree)
    n = [sum(1 for _ in tree)]

    def add(d):
        rel = posixpath.join(d, "zfix.cmake")
        tree[rel] = f"# added for the auto-exclusion precondition\nset(zfix{n[0]} 1)\n"
        n[0] += 1

    for d, (_subs, files) in sorted(ch.items()):
        has_lower = any(f.endswith(".cmake") for f in files)
        has_mixed = any(refs.is_cmake(f) and not f.endswith(".cmake") for f in files)
        if (d == "" and not has_lower) or (has_mixed and not has_lower):
            add(d)
    return tree


def draw_site(draw, loc_pool=None, tree_kw=None, auto_exclude=True, max_loc=2):
    s = Site()
    pool = loc_pool or LOC_NAMES
    s.loc = draw(st.lists(st.sampled_from(pool), min_size=0, max_size=max_loc))
    s.rel = "/".join(s.loc)
    s.proj_name = draw(st.sampled_from(PROJ_NAMES))
    s.proj = posixpath.join(s.rel, s.proj_name) if s.rel else s.proj_name
    s.tree = draw_tree(draw, **(tree_kw or {}))
    add_numeric_twins(draw, s.tree)
    if auto_exclude:
        fix_for_auto_exclude(s.tree)
    return s


def base_files(site=None, config_dir_exists=True):
    files = {"tmp": None, "xdgdirs": None, "elsewhere": None, "home": None}
    if config_dir_exists:
        files["home/.config/cminx"] = None
    if site is not None:
        files[site.proj] = None
        for rel, c in site.tree.items():
            files[posixpath.join(site.proj, rel)] = c
    return files


def spell(draw, cwd, target, is_dir=True, allow_abs=True):
    """A way of writing path *target* (relative to the sandbox base) from *cwd*."""
    rel = posixpath.relpath(target or ".", cwd or ".")
    forms = [rel, "./" + rel]
    if is_dir:
        forms.append(rel + "/")
    if allow_abs:
        forms.append("{BASE}/" + target)
    return draw(st.sampled_from(forms))


def pattern_ok(p):
    """A pattern must not match any fixed component of the sandbox location."""
    kind, _d, payload = refs._split_pattern(p.replace("{BASE}", "/B"))
    if kind == "abs":
        return True
    if not any(c.islower() for c in payload if c.isalpha()):
        return False
    return not any(fnmatch.fnmatchcase(c, payload) for c in core.STATIC_ANCESTORS)


def hits_ancestor(p, site):
    """Would this (non-absolute) pattern match a path component above the input directory?"""
    kind, _d, payload = refs._split_pattern(p.replace("{BASE}", "/B"))
    return kind == "name" and any(fnmatch.fnmatchcase(c, payload) for c in site.loc)


def draw_patterns(draw, site, max_patterns=4, allow_abs=True, allow_root=False, allow_ancestor_hits=False):
    """Patterns drawn from the tree's own names so that they hit.  Unless asked for, no pattern matches a
    component of the generated location above the input (that is finding F5, C15's business)."""
    entries = sorted(e for e in site.tree if "\\" not in e)      # a backslash is gitignore's escape character
    if not entries:
        return []
    k = draw(st.integers(0, max_patterns))
    pats = []
    for _ in range(k):
        rel = draw(st.sampled_from(entries))
        is_dir = site.tree[rel] is None
        name = posixpath.basename(rel)
        forms = ["bare", "bare", "glob_ext", "glob_pre", "starstar"]
        if is_dir:
            forms += ["dirslash", "dirslash", "starstar_slash"]
        else:
            forms += ["dirslash"]        # NAME/ on a file: matches nothing
        if allow_abs:
            forms += ["abs", "abs_glob"]
        form = draw(st.sampled_from(forms))
        if form == "bare":
            p = name
        elif form == "dirslash":
            p = name + "/"
        elif form == "glob_ext":
            p = "*" + name[name.rfind("."):] if "." in name else name[:1] + "*"
        elif form == "glob_pre":
            cut = draw(st.integers(1, max(1, len(name) - 1)))
            p = name[:cut] + "*"
        elif form == "starstar":
            p = "**/" + name
        elif form == "starstar_slash":
            p = "**/" + name + "/"
        elif form == "abs":
            p = "{BASE}/" + posixpath.join(site.proj, rel) + ("/" if is_dir and draw(st.booleans()) else "")
        else:  # abs_glob
            d = posixpath.dirname(rel)
            ext = name[name.rfind("."):] if "." in name else ""
            p = "{BASE}/" + posixpath.join(site.proj, d, "*" + ext if ext else name[:1] + "*")
            p = posixpath.normpath(p)
        if p not in pats and pattern_ok(p) and (allow_ancestor_hits or not hits_ancestor(p, site)):
            pats.append(p)
    if allow_root and draw(st.integers(0, 9)) == 0:
        pats.append(draw(st.sampled_from([site.proj_name, site.proj_name + "/"] + (["{BASE}/" + site.proj] if allow_abs else []))))
    return pats


def listing_schedule(draw, dirs_of_interest=(), tree=None, prefix=""):
    """-> (listing_key, listing_explicit).  For directories of interest an
    explicit permutation is drawn (so adjacency of particular entries is
    reachable by the shrinker and not left to a hash)."""
    key = draw(st.integers(0, 40))
    explicit = {}
    if tree is not None:
        ch = refs.children(tree)
        for d in dirs_of_interest:
            names = sorted(ch[d][0] + ch[d][1])
            if len(names) >= 2 and draw(st.booleans()):
                explicit[posixpath.join(prefix, d) if d else prefix] = draw(st.permutations(names))
    return key, explicit
