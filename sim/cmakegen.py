"""Token-level generator of diagnostic-free CMake modules.

A module is rendered from a small JSON descriptor (drawn by Hypothesis as a
handful of small integers) into a token list [(kind, text)].  Every name and
every documentation line carries a marker unique to (file tag, item index), so
text found in an output page is attributable to one source item.  Token kinds
give the C06 fault injector positions of known lexical context.

This is deliberately not a grammar fuzzer (C01-C11 are not claimed); it exists so
that pages have content whose leakage, truncation or misplacement is visible.
"""

KINDS = ("function", "macro", "set", "set_undoc", "option", "add_test", "ct_test",
         "class", "generic_doc", "generic", "if_block", "comment")

# token kinds
ID, LP, RP, UQ, QT, BR, WS, NL, LC, BC, DOC = (
    "ident", "lparen", "rparen", "unquoted", "quoted", "bracket", "ws", "nl",
    "line_comment", "bracket_comment", "doccomment")


class Module:
    def __init__(self):
        self.tokens = []
        self.mod_name = None       # explicit @module name
        self.mod_has_doc = False   # file starts with an @module doccomment
        self.mod_body = []         # body lines of the module doccomment
        self.first_cmd_markers = []  # doc markers of the first command after the module doc
        self.n_entries = 0         # commands expected to yield a top-level entry (rough)

    @property
    def text(self):
        return "".join(t for _k, t in self.tokens)


def _doc(mod, indent, lines, head=""):
    pad = " " * indent
    body = "".join(f"{pad}#{(' ' + ln) if ln else ''}\n" for ln in lines)
    mod.tokens.append((WS, pad)) if pad else None
    mod.tokens.append((DOC, f"#[[[{head}\n{body}{pad}#]]"))
    mod.tokens.append((NL, "\n"))


def _cmd(mod, indent, name, args, multiline=False):
    """args: list of (kind, text) | ('group', [args...])"""
    t = mod.tokens
    if indent:
        t.append((WS, " " * indent))
    t.append((ID, name))
    t.append((LP, "("))
    _args(mod, args, indent, multiline)
    t.append((RP, ")"))
    t.append((NL, "\n"))


def _args(mod, args, indent, multiline):
    t = mod.tokens
    for i, a in enumerate(args):
        if i:
            if multiline and i % 2 == 0:
                t.append((NL, "\n"))
                t.append((WS, " " * (indent + 4)))
            else:
                t.append((WS, " "))
        if a[0] == "group":
            t.append((LP, "("))
            _args(mod, a[1], indent, False)
            t.append((RP, ")"))
        else:
            t.append(a)


def _doclines(tag, i, n, v):
    out = []
    for j in range(n):
        if j == 1 and v & 1:
            out.append("")
        elif j == 2 and v & 2:
            out.append(f"   indented zq{tag}d{i}l{j} more")
        elif j == 0 and v & 16 and n >= 2:
            out.append(f"zq{tag}d{i}l{j} takes :keyword FLAG: extras")
        else:
            out.append(f"zq{tag}d{i}l{j} words about item {i}")
    return out


def render(desc, tag):
    """desc: {"mod": None | {"name": bool, "body": int},
              "cmds": [{"k": int, "doc": int, "v": int, "n": int}, ...]}"""
    m = Module()
    md = desc.get("mod")
    if md is not None:
        m.mod_has_doc = True
        if md.get("name"):
            m.mod_name = f"zq{tag}modname"
        m.mod_body = [f"zq{tag}mod{j} module text" for j in range(md.get("body", 0))]
        head = " @module" + (f" {m.mod_name}" if m.mod_name else "")
        _doc(m, 0, m.mod_body, head=head)
    first = True
    for i, c in enumerate(desc.get("cmds", ())):
        kind = KINDS[c["k"] % len(KINDS)]
        nd, v, n = c.get("doc", 0), c.get("v", 0), c.get("n", 0)
        name = f"zq{tag}n{i}"
        dl = _doclines(tag, i, nd, v)
        if first and kind != "comment":
            m.first_cmd_markers = [ln.strip().split(" ")[0] if not ln.startswith("   ") else ln.split()[1]
                                   for ln in dl if ln]
            first = False
        _render_cmd(m, kind, name, dl, v, n, tag, i, 0)
    return m


def _params(name, n, v):
    ps = []
    for j in range(n % 4):
        if v & 8 and j == 0:
            ps.append((QT, f'"{name}p{j}"'))
        else:
            ps.append((UQ if v & 16 else ID, f"{name}p{j}"))
    return ps


def _render_cmd(m, kind, name, dl, v, n, tag, i, indent):
    if kind in ("function", "macro"):
        if dl:
            _doc(m, indent, dl)
        _cmd(m, indent, kind, [(ID, name)] + _params(name, n, v), multiline=bool(v & 32))
        if v & 1:
            _cmd(m, indent + 4, "cmake_parse_arguments",
                 [(ID, name + "a"), (QT, '""'), (QT, '"OPT"'), (QT, '"MULTI;VALS"'), (UQ, "${ARGN}")])
        if v & 2:
            _cmd(m, indent + 4, "set", [(ID, name + "v"), (QT, f'"inner \\"{name}\\" \\t ${{X}}"')])
        if v & 4:
            m.tokens.append((WS, " " * (indent + 4)))
            m.tokens.append((LC, f"# body comment {name}c"))
            m.tokens.append((NL, "\n"))
            _cmd(m, indent + 4, "message", [(ID, "STATUS"), (BR, f"[=[raw ]] {name}b ]=]")])
        _cmd(m, indent, "end" + kind, [])
        m.n_entries += 1
    elif kind == "set":
        if dl:
            _doc(m, indent, dl)
        form = v % 3
        if form == 0:
            _cmd(m, indent, "set", [(ID, name), (QT, f'"value of {name} with \\; and \\n"')])
        elif form == 1:
            _cmd(m, indent, "set", [(ID, name), (UQ, f"{name}-a"), (UQ, "b\\ c"), (UQ, "${OTHER}")])
        else:
            _cmd(m, indent, "set", [(ID, name)])
        m.n_entries += 1 if dl else 0
    elif kind == "set_undoc":
        _cmd(m, indent, "set", [(ID, name), (UQ, "1")])
    elif kind == "option":
        if dl:
            _doc(m, indent, dl)
        args = [(ID, name), (QT, f'"help for {name}"')]
        if v & 1:
            args.append((ID, "ON"))
        _cmd(m, indent, "option", args)
        m.n_entries += 1
    elif kind == "add_test":
        if dl:
            _doc(m, indent, dl)
        _cmd(m, indent, "add_test", [(ID, "NAME"), (ID, name), (ID, "COMMAND"), (UQ, f"{name}-exe"), (UQ, "--flag")])
        m.n_entries += 1
    elif kind == "ct_test":
        if dl:
            _doc(m, indent, dl)
        args = [(ID, "NAME"), (ID, name)]
        if v & 1:
            args.append((ID, "EXPECTFAIL"))
        _cmd(m, indent, "ct_add_test", args)
        _cmd(m, indent, "function", [(UQ, "${" + name + "}")])
        for s in range(n % 3):
            sn = f"{name}s{s}"
            if v & 2:
                _doc(m, indent + 4, [f"zq{tag}d{i}s{s} section words"])
            _cmd(m, indent + 4, "ct_add_section", [(ID, "NAME"), (ID, sn)])
            _cmd(m, indent + 4, "function", [(UQ, "${" + sn + "}")])
            _cmd(m, indent + 8, "message", [(QT, f'"in section {sn}"')])
            _cmd(m, indent + 4, "endfunction", [])
        _cmd(m, indent, "endfunction", [])
        m.n_entries += 1
    elif kind == "class":
        cname = "Zq" + name[2:]
        if dl:
            _doc(m, indent, dl)
        args = [(ID, cname)]
        if v & 1:
            args.append((ID, "BaseOf" + cname))
            if v & 4:
                args.append((ID, "Mixin" + cname))
                args.append((ID, "Another" + cname))
        _cmd(m, indent, "cpp_class", args)
        for a in range(n % 3):
            if v & 2:
                _doc(m, indent + 4, [f"zq{tag}d{i}a{a} attribute words"])
            aargs = [(ID, cname), (ID, f"{name}at{a}")]
            if v & 4:
                aargs.append((QT, f'"dflt{a}"'))
            _cmd(m, indent + 4, "cpp_attr", aargs)
        for k in range((n // 3) % 3):
            mn = f"{name}m{k}"
            if v & 8:
                _doc(m, indent + 4, [f"zq{tag}d{i}m{k} member words"])
            _cmd(m, indent + 4, "cpp_constructor" if (v & 16 and k == 0) else "cpp_member",
                 [(ID, "CTOR" if (v & 16 and k == 0) else mn), (ID, cname), (ID, "int"), (ID, "str")])
            _cmd(m, indent + 4, "macro" if v & 32 else "function",
                 [(UQ, "${" + ("CTOR" if (v & 16 and k == 0) else mn) + "}"), (ID, "self"), (ID, "a"), (ID, "b")])
            _cmd(m, indent + 4, "endmacro" if v & 32 else "endfunction", [])
        _cmd(m, indent, "cpp_end_class", [])
        m.n_entries += 1
    elif kind == "generic_doc":
        _doc(m, indent, dl or [f"zq{tag}d{i}l0 generic words"])
        _cmd(m, indent, "message", [(ID, "STATUS"), (QT, f'"{name} says # not a comment"'), ("group", [(ID, "A"), (ID, "AND"), (ID, "B")])])
        m.n_entries += 1
    elif kind == "generic":
        _cmd(m, indent, "include", [(UQ, f"{name}/file.cmake")])
    elif kind == "if_block":
        _cmd(m, indent, "if", [("group", [(ID, name), (ID, "AND"), (UQ, "${B}")]), (ID, "OR"), (ID, "C")])
        _cmd(m, indent + 4, "message", [(QT, f'"{name} taken"')])
        _cmd(m, indent, "endif", [])
    elif kind == "comment":
        form = v % 3
        if form == 0:
            m.tokens.append((LC, f"# plain comment {name} with \"quote ( and \\q"))
        elif form == 1:
            m.tokens.append((BC, f"#[[ bracket comment {name}\n spanning \" ( lines ]]"))
        else:
            m.tokens.append((BC, f"#[==[ level-2 ]] ]=] {name} ]==]"))
        m.tokens.append((NL, "\n"))


# ---------------------------------------------------------------------------
# Hypothesis strategy for descriptors (imported lazily so refs/cmakegen stay light)

def desc_strategy(max_cmds=5, with_mod=True):
    from hypothesis import strategies as st
    cmd = st.fixed_dictionaries({
        "k": st.integers(0, len(KINDS) - 1),
        "doc": st.integers(0, 3),
        "v": st.integers(0, 63),
        "n": st.integers(0, 8),
    })
    mod = st.none() if not with_mod else st.one_of(
        st.none(),
        st.fixed_dictionaries({"name": st.booleans(), "body": st.integers(0, 3)}))
    return st.fixed_dictionaries({"mod": mod, "cmds": st.lists(cmd, min_size=0, max_size=max_cmds)})
