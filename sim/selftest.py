"""Self tests of the machinery (DESIGN.md section 4).

  selftest determinism [seeds=N] [props=C15,C13]   same (seed, shard) twice in separate interpreters under different
                                                   PYTHONHASHSEED and worker counts; shard digests must be identical
  selftest mutants [filter] [notests]              apply each mutant of mutants/defs.py to a scratch copy of /repo,
                                                   run the repository's test suite on it, run the matching quick check
                                                   with VERIF_REPO=<copy>; it must report a VIOLATION
"""
import json
import os
import shutil
import subprocess
import sys
import time

VERIF = os.path.dirname(os.path.dirname(os.path.abspath(__file__)))
PY = sys.executable
SCRATCH_ROOT = "/dev/shm" if os.path.isdir("/dev/shm") else "/tmp"


def _copy_repo(dst):
    if os.path.exists(dst):
        shutil.rmtree(dst)
    subprocess.run(["rsync", "-a", "--exclude", ".git", "--exclude", "__pycache__", "/repo/", dst + "/"], check=True)


def run_tests(repo):
    env = dict(os.environ, PYTHONPATH=os.path.join(repo, "src"), PYTHONDONTWRITEBYTECODE="1")
    p = subprocess.run([PY, "-m", "pytest", "-q", "-p", "no:cacheprovider", "--timeout=900", "-x"], cwd=repo,
                       capture_output=True, text=True, env=env)
    tail = (p.stdout.strip().splitlines() or [""])[-1]
    return p.returncode == 0, tail


def run_check(prop, repo, extra=()):
    env = dict(os.environ, VERIF_REPO=repo)
    t0 = time.time()
    p = subprocess.run([os.path.join(VERIF, "check"), prop, "quick"] + list(extra), cwd=VERIF, capture_output=True,
                       text=True, env=env)
    viol = [ln for ln in p.stdout.splitlines() if ln.startswith("VIOLATION")]
    first_detail = ""
    lines = p.stdout.splitlines()
    for i, ln in enumerate(lines):
        if ln.startswith("VIOLATION") and i + 1 < len(lines):
            first_detail = lines[i + 1].strip()[:300]
            break
    return p.returncode, len(viol), first_detail, round(time.time() - t0, 1), p.stdout[-1500:] + p.stderr[-500:]


def mutants(args, benign=False):
    sys.path.insert(0, os.path.join(VERIF, "mutants"))
    import defs
    flt = [a for a in args if a != "notests"]
    do_tests = "notests" not in args
    report = []
    ok_all = True
    for mu in (defs.B if benign else defs.M):
        if flt and not any(f in mu["name"] or f in mu["props"] for f in flt):
            continue
        dst = os.path.join(SCRATCH_ROOT, "cminx-mut-" + mu["name"])
        _copy_repo(dst)
        try:
            path = os.path.join(dst, mu["file"])
            with open(path) as f:
                src = f.read()
            if src.count(mu["old"]) != 1:
                report.append({"mutant": mu["name"], "error": f"pattern found {src.count(mu['old'])}x"})
                print(f"{mu['name']:40s} PATTERN-NOT-UNIQUE ({src.count(mu['old'])})", flush=True)
                ok_all = False
                continue
            with open(path, "w") as f:
                f.write(src.replace(mu["old"], mu["new"]))
            survives, tail = run_tests(dst) if do_tests else (None, "")
            row = {"mutant": mu["name"], "note": mu["note"], "survives_tests": survives, "tests": tail, "checks": {}}
            for prop in mu["props"]:
                if not os.path.exists(os.path.join(VERIF, "sim", "props", prop.lower() + ".py")):
                    row["checks"][prop] = {"skipped": "check not built"}
                    continue
                rc, nv, detail, secs, out = run_check(prop, dst)
                row["checks"][prop] = {"exit": rc, "violations": nv, "seconds": secs, "first": detail}
                if rc != 1:
                    row["checks"][prop]["output_tail"] = out[-600:]
            det = [p for p, r in row["checks"].items() if r.get("exit") == 1]
            row["detected_by"] = det
            primary = mu["props"][0]
            if benign:
                good = all(r.get("exit") == 0 or "skipped" in r for r in row["checks"].values())
            else:
                good = row["checks"].get(primary, {}).get("exit") == 1 or "skipped" in row["checks"].get(primary, {})
            ok_all = ok_all and good
            report.append(row)
            print(f"{mu['name']:40s} tests={'pass' if survives else ('FAIL' if survives is not None else '-'):5s} "
                  + " ".join((f"{p}:{'quiet' if r.get('exit') == 0 else 'FALSE-ALARM rc=' + str(r.get('exit'))}({r.get('seconds', '-')}s)" if benign else
                              f"{p}:{'DETECTED' if r.get('exit') == 1 else ('skip' if 'skipped' in r else 'MISSED rc=' + str(r.get('exit')))}({r.get('seconds', '-')}s)")
                             for p, r in row["checks"].items()), flush=True)
        finally:
            shutil.rmtree(dst, ignore_errors=True)
    out = os.path.join(VERIF, "mutants", "BENIGN.json" if benign else "REPORT.json")
    prev = []
    if flt and os.path.exists(out):
        with open(out) as f:
            prev = [r for r in json.load(f) if r["mutant"] not in {x["mutant"] for x in report}]
    with open(out, "w") as f:
        json.dump(prev + report, f, indent=1)
    return 0 if ok_all else 1


def determinism(args):
    kw = dict(a.split("=") for a in args if "=" in a)
    nshards = int(kw.get("shards", 24))
    props = kw.get("props", "C06,C12,C13,C14,C15,C16,C17,C18,C19,C20").split(",")
    seeds = [int(s) for s in kw.get("seeds", "1,2,20261002").split(",")]
    code = r'''
import sys, json
sys.path.insert(0, %r)
from sim import harness
prop, seed, n, tier = sys.argv[1], int(sys.argv[2]), int(sys.argv[3]), sys.argv[4]
mod = harness.load_prop(prop)
ex = max(2, mod.TIERS["quick"]["examples"] // 3)
out = []
for s in range(n):
    r = harness.run_shard(prop, seed, s, tier, ex, 900)
    out.append([s, r["shard_digest"], r["examples"], bool(r["violation"]), bool(r["error"])])
print("DIGESTS " + json.dumps(out))
''' % VERIF
    bad = 0
    total = 0
    for prop in props:
        if not os.path.exists(os.path.join(VERIF, "sim", "props", prop.lower() + ".py")):
            continue
        for seed in seeds:
            runs = []
            procs = []
            for hs, order in (("0", 1), ("31337", -1), ("7", 1)):
                env = dict(os.environ, PYTHONHASHSEED=hs, PYTHONWARNINGS="ignore")
                procs.append(subprocess.Popen([PY, "-c", code, prop, str(seed), str(nshards), "quick"], env=env,
                                              stdout=subprocess.PIPE, stderr=subprocess.PIPE, text=True))
            for p in procs:
                so, se = p.communicate()
                d = [ln for ln in so.splitlines() if ln.startswith("DIGESTS ")]
                if not d:
                    print(f"{prop} seed {seed}: run failed: {se[-400:]}")
                    bad += 1
                    continue
                runs.append(json.loads(d[0][8:]))
            total += nshards
            if len(runs) == 3 and runs[0] == runs[1] == runs[2]:
                print(f"{prop} seed {seed}: {nshards} shards x 3 interpreters (PYTHONHASHSEED 0/31337/7) identical", flush=True)
            else:
                bad += 1
                for a, b, c in zip(*runs):
                    if not (a == b == c):
                        print(f"{prop} seed {seed}: shard {a[0]} differs: {a} {b} {c}")
    print(f"determinism: {total} shard comparisons, {bad} mismatching groups")
    return 0 if bad == 0 else 2


def main(argv):
    if argv[0] == "mutants":
        return mutants(argv[1:])
    if argv[0] == "benign":
        return mutants(argv[1:], benign=True)
    if argv[0] == "determinism":
        return determinism(argv[1:])
    print(__doc__)
    return 2
