"""Persistent helper interpreter for C17: executes worlds under another
PYTHONHASHSEED.  Protocol: one JSON object per line on stdin
({"files": {...}, "call": {...}, "env": {...}, "out": "rel"}), one JSON object per
line on stdout ({"status": int, "pages": {rel: text}, "stdout": str})."""
import json
import os
import sys

VERIF = os.path.dirname(os.path.dirname(os.path.abspath(__file__)))
sys.path.insert(0, VERIF)


def main():
    import warnings
    warnings.simplefilter("ignore")
    from sim import core
    real_stdout = sys.stdout
    for line in sys.stdin:
        req = json.loads(line)
        if req.get("quit"):
            break
        base = core.new_base()
        try:
            core.materialise(base, req["files"])
            res = core.run_call(base, req["call"], env=req.get("env"), snap=False)
            pages = core.read_tree(base, req["out"]) if req.get("out") else {}
            out = {"status": res.status, "pages": pages, "stdout": res.stdout, "exc": res.exc,
                   "hashseed": os.environ.get("PYTHONHASHSEED")}
        except Exception as e:      # harness problem, reported as such by the caller
            out = {"error": f"{type(e).__name__}: {e}"}
        finally:
            core.drop_base(base)
        real_stdout.write(json.dumps(out) + "\n")
        real_stdout.flush()


if __name__ == "__main__":
    main()
