"""Independent validity scanner for the five fault families of C06, written from
cmake-language(7) - not from CMinx's grammar.

scan(text) -> None if none of the five families is present, otherwise the name
of the first one met:
  'unterminated-string', 'unterminated-bracket-comment', 'invalid-escape',
  'unbalanced-paren', 'stray-text'
or 'unjudged' for constructs the property does not name (an unterminated
bracket *argument*), which callers must discard.
"""
import re

_IDENT = re.compile(r"[A-Za-z_][A-Za-z0-9_]*")
_BOPEN = re.compile(r"\[(=*)\[")


def _skip_comment(s, i):
    """s[i] == '#'.  -> (new index, error or None)"""
    m = _BOPEN.match(s, i + 1)
    if m:
        close = "]" + m.group(1) + "]"
        j = s.find(close, m.end())
        if j < 0:
            return len(s), "unterminated-bracket-comment"
        return j + len(close), None
    j = s.find("\n", i)
    return (len(s) if j < 0 else j + 1), None


def _escape(s, i):
    """s[i] == '\\\\'.  -> (new index, error or None)"""
    if i + 1 >= len(s):
        return i + 1, "invalid-escape"
    c = s[i + 1]
    if c.isalnum() and c.isascii() and c not in "tnr":
        return i + 2, "invalid-escape"
    if c == "\r" and i + 2 < len(s) and s[i + 2] == "\n":
        return i + 3, None
    return i + 2, None


def scan(s):
    i, n, depth = 0, len(s), 0
    while i < n:
        c = s[i]
        if c in " \t\r\n":
            i += 1
            continue
        if c == "#":
            i, err = _skip_comment(s, i)
            if err:
                return err
            continue
        if depth == 0:
            m = _IDENT.match(s, i)
            if not m:
                if c in "()":
                    return "unbalanced-paren"
                if c == "\\":
                    _j, err = _escape(s, i)
                    return err or "stray-text"
                return "stray-text"
            j = m.end()
            # an identifier immediately continued by other argument characters is not a command name
            while j < n and s[j] in " \t\r\n":
                j += 1
            # comments between the name and '(' are tolerated (lenient; not one of the five families)
            while j < n and s[j] == "#":
                j, err = _skip_comment(s, j)
                if err:
                    return err
                while j < n and s[j] in " \t\r\n":
                    j += 1
            if j < n and s[j] == "(":
                depth = 1
                i = j + 1
                continue
            if m.end() < n and s[m.end()] == "\\":
                _j, err = _escape(s, m.end())
                if err:
                    return err
            return "stray-text"
        # inside an argument list
        if c == "(":
            depth += 1
            i += 1
        elif c == ")":
            depth -= 1
            i += 1
        elif c == '"':
            i += 1
            while True:
                if i >= n:
                    return "unterminated-string"
                d = s[i]
                if d == "\\":
                    i, err = _escape(s, i)
                    if err:
                        return err
                elif d == '"':
                    i += 1
                    break
                else:
                    i += 1
        else:
            m = _BOPEN.match(s, i) if c == "[" else None
            if m:
                close = "]" + m.group(1) + "]"
                j = s.find(close, m.end())
                if j < 0:
                    return "unjudged"
                i = j + len(close)
                continue
            # unquoted argument
            while i < n and s[i] not in " \t\r\n()#\"":
                if s[i] == "\\":
                    i, err = _escape(s, i)
                    if err:
                        return err
                else:
                    i += 1
    if depth > 0:
        return "unbalanced-paren"
    return None
