"""Small reference models used as oracles.  Independent of /repo.

Written from the property statements (C12-C15, C18), not from the code.
"""
import fnmatch
import os
import posixpath

# ---------------------------------------------------------------------------
# trees: {relpath: text | None}; None marks a directory ("s/" style keys are not used)


def tree_dirs(tree):
    """All directories of a tree ('' is the root), including implied parents."""
    ds = {""}
    for rel, c in tree.items():
        parts = rel.split("/")
        upto = len(parts) if c is None else len(parts) - 1
        for i in range(1, upto + 1):
            ds.add("/".join(parts[:i]))
    return ds


def tree_files(tree):
    return {rel for rel, c in tree.items() if c is not None}


def children(tree):
    """{dir: (sorted subdir names, sorted file names)}"""
    ds = tree_dirs(tree)
    out = {d: ([], []) for d in ds}
    for d in ds:
        if d:
            out[posixpath.dirname(d)][0].append(posixpath.basename(d))
    for f in tree_files(tree):
        out[posixpath.dirname(f)][1].append(posixpath.basename(f))
    for d in out:
        out[d][0].sort()
        out[d][1].sort()
    return out


def is_cmake(name):
    return name.lower().endswith(".cmake")


def stem(name):
    return name[: name.rfind(".")]


# ---------------------------------------------------------------------------
# gitignore semantics for the generated pattern forms

def _split_pattern(pat):
    """-> (kind, dir_only, payload).  kind: 'abs' | 'name'."""
    dir_only = pat.endswith("/")
    p = pat[:-1] if dir_only else pat
    if p.startswith("/"):
        return "abs", dir_only, p
    while p.startswith("**/"):
        p = p[3:]
    if "/" in p or p in ("", "**"):
        raise ValueError(f"pattern form not modelled: {pat!r}")
    return "name", dir_only, p


def pattern_matches_entry(pat, abs_path, is_dir):
    """Does the pattern match this very entry (not via a parent)?"""
    kind, dir_only, p = _split_pattern(pat)
    if dir_only and not is_dir:
        return False
    if kind == "abs":
        d, last = posixpath.split(p)
        ed, elast = posixpath.split(abs_path.rstrip("/"))
        return d == ed and fnmatch.fnmatchcase(elast, last)
    return fnmatch.fnmatchcase(posixpath.basename(abs_path.rstrip("/")), p)


class Ignore:
    """excluded(rel, is_dir): the entry or one of its ancestors *below or at the
    input path* matches a pattern."""

    def __init__(self, patterns, abs_input, input_is_dir=True):
        self.patterns = list(patterns)
        self.abs_input = abs_input.rstrip("/")
        self.input_is_dir = input_is_dir

    def self_match(self, rel, is_dir):
        ap = self.abs_input if rel in ("", ".") else self.abs_input + "/" + rel
        return any(pattern_matches_entry(p, ap, is_dir) for p in self.patterns)

    def root_excluded(self):
        return self.self_match("", self.input_is_dir)

    def excluded(self, rel, is_dir):
        if self.root_excluded():
            return True
        if rel in ("", "."):
            return False
        parts = rel.split("/")
        for i in range(1, len(parts)):
            if self.self_match("/".join(parts[:i]), True):
                return True
        return self.self_match(rel, is_dir)

    def ancestor_component_hits(self):
        """Patterns (non-absolute) that match a path component *above* the input
        path: under gitignore rules relative to the input they exclude nothing."""
        comps = [c for c in posixpath.dirname(self.abs_input).split("/") if c]
        hits = []
        for pat in self.patterns:
            kind, _d, p = _split_pattern(pat)
            if kind == "name" and any(fnmatch.fnmatchcase(c, p) for c in comps):
                hits.append(pat)
        return hits


# ---------------------------------------------------------------------------
# the walk of C13

class Walk:
    def __init__(self):
        self.dirs = []      # processed directories, '' = input directory
        self.files = []     # processed CMake files (relpaths)
        self.ambiguous = False   # the two readings of "directly contains no .cmake file" differ
        self.emptied = []   # dirs whose lower-case .cmake files are all excluded by pattern
        self.auto_excluded = []
        self.pattern_excluded_dirs = []


def ref_walk(tree, recursive, auto_exclude, ignore):
    """Processed directories and files according to the statement of C13.

    auto-exclusion skips directories that directly contain no .cmake file; where
    'contain' could mean before or after pattern exclusion and the two differ,
    the walk follows the before-exclusion reading and sets .ambiguous.
    """
    ch = children(tree)
    w = Walk()
    if ignore.root_excluded():
        return w

    def has_cmake(d, after_exclusion):
        for f in ch[d][1]:
            if f.endswith(".cmake"):
                if not after_exclusion or not ignore.excluded(posixpath.join(d, f), False):
                    return True
        return False

    def visit(d):
        w.dirs.append(d)
        for f in ch[d][1]:
            rel = posixpath.join(d, f)
            if is_cmake(f) and not ignore.excluded(rel, False):
                w.files.append(rel)
        if not recursive:
            return
        for s in ch[d][0]:
            rel = posixpath.join(d, s)
            if ignore.excluded(rel, True):
                w.pattern_excluded_dirs.append(rel)
                continue
            if auto_exclude:
                b, a = has_cmake(rel, False), has_cmake(rel, True)
                if b != a:
                    w.ambiguous = True
                    w.emptied.append(rel)
                if not b:
                    w.auto_excluded.append(rel)
                    continue
            visit(rel)

    if auto_exclude:
        b, a = has_cmake("", False), has_cmake("", True)
        if b != a:
            w.ambiguous = True
            w.emptied.append("")
    visit("")
    return w


def expected_outputs(walk):
    """Set of relpaths (files) expected under the output directory."""
    out = set()
    for d in walk.dirs:
        out.add(posixpath.join(d, "index.rst"))
    for f in walk.files:
        out.add(stem(f) + ".rst")
    return out


# ---------------------------------------------------------------------------
# readers for generated text (rely only on what C12/C14/C20 state)

class Page:
    pass


def parse_page(text):
    """Title block, column-0 directives."""
    p = Page()
    lines = text.split("\n")
    p.lines = lines
    i = 0
    while i < len(lines) and lines[i].strip() == "":
        i += 1
    p.title_at = i
    p.over = lines[i] if i < len(lines) else None
    p.title = lines[i + 1] if i + 1 < len(lines) else None
    p.under = lines[i + 2] if i + 2 < len(lines) else None
    p.directives = []
    for n, ln in enumerate(lines):
        if ln.startswith(".. ") and "::" in ln:
            name, _, arg = ln[3:].partition("::")
            p.directives.append((n, name, arg[1:] if arg.startswith(" ") else arg))
    return p


def directive_body(page, idx):
    """Lines of the idx-th column-0 directive's body (up to the next column-0 directive)."""
    start = page.directives[idx][0] + 1
    end = page.directives[idx + 1][0] if idx + 1 < len(page.directives) else len(page.lines)
    return page.lines[start:end]


class Index:
    pass


def parse_index(text):
    ix = Index()
    pg = parse_page(text)
    ix.page = pg
    ix.title = pg.title
    ix.over, ix.under = pg.over, pg.under
    ix.toctrees = [k for k, (_n, name, _a) in enumerate(pg.directives) if name == "toctree"]
    ix.entries = []
    ix.options = []
    if ix.toctrees:
        body = directive_body(pg, ix.toctrees[0])
        for ln in body:
            s = ln.strip()
            if not s:
                continue
            if s.startswith(":") and ln.startswith("   "):
                ix.options.append(s)
            elif ln.startswith("   "):
                ix.entries.append(s)
            else:
                ix.entries.append("<unindented>" + ln)
    return ix
