#!/bin/sh
# Offline setup: nothing is compiled.  Make sure hypothesis and PyYAML are importable from /venv.
set -e
PYBIN="${VERIF_PYTHON:-/venv/bin/python}"
if ! "$PYBIN" -c "import hypothesis, yaml, confuse, pathspec, antlr4" 2>/dev/null; then
  /venv/bin/pip install --no-index --find-links /opt/veriftools/wheels hypothesis >/dev/null
fi
"$PYBIN" -c "import hypothesis, yaml, confuse, pathspec, antlr4; print('setup ok: hypothesis', hypothesis.__version__)"
mkdir -p "$(dirname "$0")/evidence" "$(dirname "$0")/replays"
